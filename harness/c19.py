"""C19 — the client never wedges; refuses work unless a session is alive.

implementation : one real APIClient driven over several consecutive sessions on SimNet: start / finish / disconnect(force)
                 calls, device events and faults at every stage (before start completes, between the phases, during the
                 handshake, during hello, connected, during disconnect), in separate event-loop turns and in the SAME turn
model          : Esp.Client via the Lean driver (`cl.*`); the harness maps what it observes (phase completions, closes)
                 to model events and compares the client's phase, the outcome of start_connection / API calls and the number
                 of frames each call wrote
spec (on impl) : whenever no attempt is in progress and no connection is alive, start_connection is accepted; every public
                 API entry point (enumerated by reflection) called without an authenticated session raises a connection
                 error and writes nothing; unsubscribe/stop closures from earlier sessions write nothing
"""
from __future__ import annotations
import common

import inspect
from asyncio import tasks

from aioesphomeapi import APIClient, api_pb2 as pb
from aioesphomeapi import core
import aioesphomeapi.connection as ac

import apisurface
from common import Check, run_driver_parallel
import fh
import simnet

STATE = {ac.CONNECTION_STATE_INITIALIZED: "init", ac.CONNECTION_STATE_SOCKET_OPENED: "sockOpen",
         ac.CONNECTION_STATE_HANDSHAKE_COMPLETE: "hsDone", ac.CONNECTION_STATE_CONNECTED: "connected",
         ac.CONNECTION_STATE_CLOSED: "closed"}


class Bench:
    def __init__(self, entry_points, hook_reconnect=False):
        self.hook_reconnect = hook_reconnect   # the user's on_stop hook starts the next attempt at once (same turn)
        self.deferred = []
        self.net = simnet.Net(base=100.0)
        self.loop = self.net.loop
        self.client = APIClient("10.0.0.1", 6053, None)
        if common.debug_flip():
            self.client.set_debug(True)
        self.start_task = self.finish_task = None
        self.lines, self.obs = ["cl.reset"], ["ok"]
        self.closures = []
        self.entry_points = entry_points
        self.ep_i = 0
        self.bad = []
        self.hs_seen = False
        self.conn_obj = None
        self.reported = {"start": None, "finish": None}

    # ---------------------------------------------------------------- observation
    def phase(self):
        c = self.client._connection
        if c is None:
            return "none"
        st = STATE[c.connection_state]
        sp = self.start_task is not None and not self.start_task.done() and self.start_conn is c
        fp = self.finish_task is not None and not self.finish_task.done() and self.finish_conn is c
        if st == "init":
            return "starting"
        if st == "sockOpen":
            return "finishing" if fp else "opened"
        if st == "hsDone":
            return "hello"
        if st == "connected":
            return "connected"
        if sp:
            return "closedStart"
        if fp:
            return "closedFinish"
        return "closedIdle"

    def total_writes(self):
        return sum(len(t.writes) + t.writes_after_close for t in getattr(self.net, "all_transports", []))

    def emit(self, ev, last, dw):
        self.lines.append("cl.ev " + ev)
        # (a close whose stop hook already started the next attempt: the state in between is not observable)
        closing = ev in ("close", "disconnect")
        self.obs.append("SKIP" if (closing and self.deferred) else f"conn={self.phase()} last={last} dw={dw}")
        if closing and self.deferred:
            d, self.deferred = self.deferred, []
            for e2, l2 in d:
                self.emit(e2, l2, 0)

    def sync(self):
        """turn what has happened to the tasks / the connection since the last look into model events"""
        # (a connection that has been closed and is only being unwound by its task does not count: detaching it changes nothing)
        if self.start_task is not None and not self.start_task.done() and self.client._connection is not self.start_conn \
                and self.start_conn is not None and self.start_conn.connection_state is not ac.CONNECTION_STATE_CLOSED:
            self.bad.append(("attempt-detached", "a start_connection attempt is in progress but its connection is not "
                                                 "attached to the client any more (a new attempt would be accepted on top "
                                                 "of it; API calls see no connection)"))
        c = self.conn_obj
        if self.start_task is not None and self.start_task.done() and self.reported["start"] is not self.start_task:
            self.reported["start"] = self.start_task
            ok = not self.start_task.cancelled() and self.start_task.exception() is None
            self.emit("startOk" if ok else "startFail", self.last, 0)
        if c is not None and not self.hs_seen and c._handshake_complete and self.finish_task is not None:
            self.hs_seen = True
            self.emit("hsDone", self.last, 0)
        if self.finish_task is not None and self.finish_task.done() and self.reported["finish"] is not self.finish_task:
            self.reported["finish"] = self.finish_task
            ok = not self.finish_task.cancelled() and self.finish_task.exception() is None
            if ok and not self.hs_seen:
                self.hs_seen = True
                self.emit("hsDone", self.last, 0)
            self.emit("finishOk" if ok else "finishFail", self.last, 0)

    last = "noop"

    # ---------------------------------------------------------------- operations
    def op_start(self, defer=False):
        before = self.client._connection
        t = tasks._PyTask(self.client.start_connection(self._on_stop), loop=self.loop, name="cstart", eager_start=True)
        refused = t.done() and not t.cancelled() and isinstance(t.exception(), core.APIConnectionError) and \
            "Already connected" in str(t.exception())
        self.last = "alreadyConnected" if refused else "ok"
        if not refused and before is not None and before.connection_state is not ac.CONNECTION_STATE_CLOSED:
            # "... and refuses with 'already connected' otherwise": an attempt whose connection has not been closed is in
            # progress (or a session is alive) - a second attempt on top of it must not be accepted
            self.bad.append(("accepted-on-top", f"start_connection was accepted although the client's connection is in state "
                                                f"{STATE[before.connection_state]} (an attempt in progress / a live session): the earlier "
                                                "connection is replaced without being closed"))
        if not refused:
            self.start_task = t
            self.start_conn = self.client._connection
            self.conn_obj = self.client._connection
            self.hs_seen = False
            self.finish_task = None
        else:
            t.exception()
        # the property itself, judged here: refused although nothing in progress and nothing alive?
        if refused and before is not None:
            st = STATE[before.connection_state]
            busy = (self.start_task is not None and not self.start_task.done()) or \
                   (self.finish_task is not None and not self.finish_task.done())
            if st == "closed" and not busy:
                self.bad.append(("wedged", "start_connection refused with 'Already connected' although no attempt is in "
                                           "progress and the attached connection is closed"))
        if refused and defer:
            self.bad.append(("wedged-in-stop-hook", "start_connection called from the on_stop hook (the session has just "
                                                    "ended) was refused with 'Already connected'"))
        if defer:
            self.deferred.append(("callStart", self.last))
        else:
            self.emit("callStart", self.last, 0)

    async def _on_stop(self, expected):
        if self.hook_reconnect:
            self.op_start(defer=True)

    def op_finish(self):
        # finish_connection is only meaningful after a successful start (or to find out that the connection is gone); in any
        # other phase - the start or a finish still in progress, a session up - it is refused (the state guard's RuntimeError)
        # and must leave the attempt / session it found alone
        c = self.client._connection
        busy_before = c is not None and c.connection_state is not ac.CONNECTION_STATE_CLOSED and self.phase() != "opened"
        t = tasks._PyTask(self.client.finish_connection(login=False), loop=self.loop, name="cfinish", eager_start=True)
        if t.done() and not t.cancelled() and t.exception() is not None and not isinstance(t.exception(), core.APIConnectionError):
            self.last = "rawError"
            t.exception()
            if busy_before and self.client._connection is not c:
                self.bad.append(("detached-by-refused-finish", f"finish_connection() called while the client's connection is in state "
                                 f"{STATE[c.connection_state]} (an attempt in progress / a live session) was refused - and detached that "
                                 "connection from the client: it goes on unsupervised, a new attempt is accepted on top of it"))
                self.client._connection = c    # (let the scenario go on from the state the model describes)
        elif busy_before:
            self.bad.append(("finish-accepted-on-top", f"finish_connection() was accepted although the client's connection is in state "
                                                       f"{STATE[c.connection_state]}"))
            self._keep = getattr(self, "_keep", []) + [t]
            self.last = "ok"
        else:
            self.last = "ok"
            self.finish_task = t
            self.finish_conn = c
        self.emit("callFinish", self.last, 0)

    def op_close(self, kind):
        c = self.client._connection
        if c is None or c.connection_state is ac.CONNECTION_STATE_CLOSED:
            return
        net = self.net
        if kind == "force":
            ph = self.phase()
            t = tasks._PyTask(self.client.disconnect(force=True), loop=self.loop, name="cdisc", eager_start=True)
            # disconnect(force=True) is synchronous: once it has returned, at ANY stage, the connection it found is closed
            if t.done() and c.connection_state is not ac.CONNECTION_STATE_CLOSED:
                self.bad.append(("disconnect-no-effect", f"disconnect(force=True) called in phase {ph} returned and left the "
                                                         f"connection in state {STATE[c.connection_state]}"))
            self.emit("disconnect", self.last, 0)    # the model's own event: whatever was attached is closed now
            return
        elif kind == "disconnect":
            self._disc = tasks._PyTask(self.client.disconnect(), loop=self.loop, name="cdisc", eager_start=True)
            self._disc_conn, self._disc_phase = c, self.phase()
        elif kind == "eof":
            if net.eof() == "skipped":
                c.force_disconnect()
        elif kind == "garbage":
            if net.feed(b"\x07\x07\x07") == "skipped":
                c.force_disconnect()
        elif kind == "peer":
            if not c._handshake_complete or net.send(pb.DisconnectRequest()) == "skipped":
                c.force_disconnect()
            elif c.connection_state is not ac.CONNECTION_STATE_CLOSED:
                # the device has ended the session (its request has been answered): from this moment no session is alive - a
                # command issued in the same turn is refused, a new attempt accepted
                self.bad.append(("session-outlives-peer-disconnect", "the device's DisconnectRequest has been dispatched and answered, "
                                 f"yet the connection is still in state {STATE[c.connection_state]} when the data has been processed: "
                                 "commands are still written and a new attempt is refused although the session is over"))
        elif kind == "fatal":
            c.report_fatal_error(core.PingFailedAPIError("x"))
        elif kind == "writefail":
            # the transport refuses the next write (asyncio: the OSError family; uvloop / a transport already closing:
            # RuntimeError): the command that meets it ends with a library error and the connection is closed - whatever the
            # class, the client is free again afterwards
            _wf[0] += 1
            exc = [OSError("boom"), RuntimeError("the transport is closed"), ConnectionResetError(104, "reset"), BrokenPipeError(32, "pipe")][_wf[0] % 4]
            net.fail_writes = exc
            for t in getattr(net, "all_transports", []):
                t.fail_writes = exc
            for what, call in (("switch_command()", lambda: self.client.switch_command(1, True)), ("disconnect(force=True)", None)):
                if c.connection_state is ac.CONNECTION_STATE_CLOSED:
                    break
                if call is None:
                    t_ = tasks._PyTask(self.client.disconnect(force=True), loop=self.loop, name="cdisc", eager_start=True)
                    call = lambda t_=t_: t_.result() if t_.done() else None
                elif not c.is_connected:
                    continue
                try:
                    call()
                except core.APIConnectionError:
                    pass
                except Exception as e:  # noqa: BLE001
                    self.bad.append(("write-failure-raw", f"{what} on a transport whose write raises {type(exc).__name__} let a raw "
                                                          f"{type(e).__name__} escape in phase {self.phase()}"))
            net.fail_writes = None
            for t in getattr(net, "all_transports", []):
                t.fail_writes = None
            if c.connection_state is not ac.CONNECTION_STATE_CLOSED:
                self.bad.append(("write-failure-left-open", f"a failing write ({type(exc).__name__}) followed by disconnect(force=True) "
                                                            f"left the connection in state {STATE[c.connection_state]}"))
                c._cleanup()   # (let the scenario go on from a defined state)
            if self.client._connection is c:
                self.emit("disconnect", self.last, 0)
                return
        if c.connection_state is ac.CONNECTION_STATE_CLOSED:
            self.emit("close", self.last, 0)
        else:
            self.pending_close = c

    def op_api(self):
        name, fn = self.entry_points[self.ep_i % len(self.entry_points)]
        self.ep_i += 1
        args, kwargs = apisurface.build_call(name, fn, all_optional=self.ep_i % 2 == 0)
        w0 = self.total_writes()
        res = "ok"
        try:
            r = fn(self.client, *args, **kwargs)
            if inspect.iscoroutine(r):
                t = tasks._PyTask(r, loop=self.loop, name="api", eager_start=True)
                if t.done():
                    if t.cancelled():
                        res = "rawError"
                    elif t.exception() is not None:
                        res = "connError" if isinstance(t.exception(), core.APIConnectionError) else "rawError:" + type(t.exception()).__name__
                else:
                    self._keep = getattr(self, "_keep", []) + [t]
        except core.APIConnectionError:
            res = "connError"
        except Exception as e:  # noqa: BLE001
            res = "rawError:" + type(e).__name__
        dw = self.total_writes() - w0
        ph = self.phase()
        if ph != "connected":
            if res != "connError" or dw:
                self.bad.append((f"gate:{name}", f"{name}() called in phase {ph} (no authenticated session): result {res}, "
                                                 f"{dw} frame(s) written"))
        self.last = "ok" if res == "ok" else ("connError" if res == "connError" else "rawError")
        self.emit("api", self.last, min(dw, 1) if ph == "connected" else dw)

    def op_subscribe(self):
        """while connected: collect unsubscribe closures for later sessions"""
        if self.phase() != "connected":
            return
        self.closures.append(self.client.subscribe_bluetooth_le_advertisements(lambda a: None))
        self.closures.append(self.client.subscribe_bluetooth_le_raw_advertisements(lambda a: None))

        async def hstart(*a):
            return 1

        async def hstop(*a):
            return None

        self.closures.append(self.client.subscribe_voice_assistant(handle_start=hstart, handle_stop=hstop))

    def op_closure(self):
        if not self.closures:
            return
        cl = self.closures[self.ep_i % len(self.closures)]
        self.ep_i += 1
        w0 = self.total_writes()
        res = "noop"
        try:
            cl()
        except core.APIConnectionError:
            res = "connError"
        except Exception as e:  # noqa: BLE001
            res = "rawError:" + type(e).__name__
        dw = self.total_writes() - w0
        ph = self.phase()
        if ph != "connected" and dw:
            self.bad.append(("stale-closure-writes", f"an unsubscribe closure from an earlier session, called in phase {ph}, "
                                                     f"wrote {dw} frame(s) onto the new connection"))
        if res.startswith("rawError"):
            self.bad.append(("stale-closure-raw", f"an unsubscribe closure raised {res} in phase {ph}"))
        self.last = "ok" if (ph == "connected" and dw) else "noop"
        self.emit("closure", self.last, min(dw, 1))

    def op_env(self, what):
        net = self.net
        if what == "resolve_ok" and net.resolve_futs:
            net.complete_resolve()
        elif what == "resolve_fail" and net.resolve_futs:
            net.complete_resolve(core.ResolveAPIError("x"))
        elif what == "sock_ok" and net.sock_futs:
            net.complete_sock()
        elif what == "sock_fail" and net.sock_futs:
            net.complete_sock(OSError(111, "refused"))
        elif what == "hello_ok":
            net.send(simnet.hello_response())
        elif what == "hello_bad":
            net.send(simnet.hello_response(major=5))

    def idle(self):
        self.loop.run_idle()
        self.sync()
        d = getattr(self, "_disc", None)
        if d is not None and d.done():
            # a graceful disconnect() that has returned (whatever it met on the way) leaves its connection closed
            dc = self._disc_conn
            if dc.connection_state is not ac.CONNECTION_STATE_CLOSED:
                self.bad.append(("disconnect-no-effect", f"disconnect() called in phase {self._disc_phase} returned and left the "
                                                         f"connection in state {STATE[dc.connection_state]}"))
            self._disc = None
        c = getattr(self, "pending_close", None)
        if c is not None and c.connection_state is ac.CONNECTION_STATE_CLOSED:
            self.pending_close = None
            if c is self.conn_obj:   # (a connection the client has already replaced closes without the client noticing)
                self.emit("close", self.last, 0)
                self.sync()

    def close(self):
        for t in tasks.all_tasks(self.loop):
            t.cancel()
        try:
            self.loop.run_idle()
        except Exception:  # noqa: BLE001
            pass
        self.net.close()


def run_scenario(ops, entry_points, hook_reconnect=False):
    b = Bench(entry_points, hook_reconnect)
    for op in ops:
        k = op[0]
        b.sync()
        if k == "start":
            b.op_start()
        elif k == "finish":
            b.op_finish()
        elif k == "close":
            b.op_close(op[1])
        elif k == "api":
            b.op_api()
        elif k == "apiall":
            # every entry point, both argument variants, in the current stage
            b.ep_i = 0
            for _ in range(2 * len(entry_points)):
                b.sync()
                b.op_api()
        elif k == "subscribe":
            b.op_subscribe()
        elif k == "closure":
            b.op_closure()
        elif k == "env":
            b.op_env(op[1])
        elif k == "idle":
            b.idle()
        elif k == "time":
            b.loop.advance(op[1])
            b.sync()
        # a close that takes effect only after loop turns (reset / connection_lost) is picked up by sync/idle
    b.idle()
    res = (b.lines, b.obs, b.bad)
    b.close()
    return res


CLOSES = ["force", "disconnect", "eof", "garbage", "peer", "fatal", "writefail"]
_wf = [0]
I = ("idle",)


def session(rng, outcome, inject_at, injection):
    """one session as an op list; `injection` (a list of ops) is spliced in at stage `inject_at`"""
    stages = {
        "s0": [("start",)],
        "s1": [("env", "resolve_ok"), I],
        "s2": [("env", "sock_ok"), I],
        "s3": [("finish",)],
        "s4": [I],
        "s5": [("env", "hello_ok"), I, ("subscribe",), ("api",), ("api",)],
    }
    if outcome == "resolve_fail":
        stages["s1"] = [("env", "resolve_fail"), I]
        order = ["s0", "s1"]
    elif outcome == "sock_fail":
        stages["s2"] = [("env", "sock_fail"), I]
        order = ["s0", "s1", "s2"]
    elif outcome == "hello_bad":
        stages["s5"] = [("env", "hello_bad"), I]
        order = ["s0", "s1", "s2", "s3", "s4", "s5"]
    elif outcome == "between":
        order = ["s0", "s1", "s2"]
    else:
        order = ["s0", "s1", "s2", "s3", "s4", "s5"]
    ops = []
    for st in order:
        if inject_at == st + "m":
            # in the SAME loop turn as the stage's environment event (before the task waiting for it has resumed)
            ops += stages[st][:1] + injection + stages[st][1:]
            continue
        ops += stages[st]
        if st == inject_at:
            ops += injection
    return ops


def gen(ck: Check):
    rng, thorough = ck.rng, ck.tier == "thorough"
    scen = []
    probes = [("api",), ("closure",), ("start",)]
    outcomes = ["ok", "ok", "resolve_fail", "sock_fail", "hello_bad", "between"]
    # systematic: a close cause at every stage of the second session (the first one is a full session that hands out
    # closures), same turn and after an idle turn, followed by every probe
    for stage in ["s0", "s1", "s1m", "s2", "s2m", "s3", "s4", "s5", "s5m"]:
        for cause in CLOSES:
            for same_turn in (True, False):
                for probe in probes:
                    first = session(rng, "ok", None, []) + [("close", "peer"), I]
                    inj = [("close", cause)] + ([] if same_turn else [I]) + [probe, ("closure",), ("api",), I, ("start",), I]
                    second = session(rng, "ok", stage, inj)
                    scen.append(first + second + [I, ("start",), I, ("api",), ("closure",)])
    # the whole API surface in every stage without an authenticated session: before any connect, at each stage of an
    # attempt, after each kind of failed attempt, after the end of a session
    scen.append([("apiall",)])
    for stage in ["s0", "s1", "s2", "s3", "s4"]:
        scen.append(session(rng, "ok", None, []) + [("close", "peer"), I] + session(rng, "ok", stage, [("apiall",)]))
        scen.append(session(rng, "ok", stage, [("apiall",)]))
    for oc in ["resolve_fail", "sock_fail", "hello_bad", "between"]:
        scen.append(session(rng, oc, None, []) + [I, ("apiall",)])
    for cause in CLOSES:
        scen.append(session(rng, "ok", None, []) + [("close", cause), ("apiall",), I, ("apiall",)])
    n = 2500 if thorough else 350
    for _ in range(n):
        ops = []
        for _s in range(rng.randint(2, 4)):
            oc = rng.choice(outcomes)
            stage = rng.choice(["s0", "s1", "s2", "s3", "s4", "s5", None])
            inj = []
            for _k in range(rng.randint(0, 3)):
                inj.append(rng.choice([("close", rng.choice(CLOSES)), ("api",), ("closure",), ("start",), I, ("finish",)]))
            ops += session(rng, oc, stage, inj)
            ops += [rng.choice([("close", rng.choice(CLOSES)), I, ("api",)]), I]
        ops += [("start",), I, ("api",), ("closure",)]
        scen.append(ops)
    return scen


def run(ck: Check):
    eps = apisurface.entry_points()
    scen = gen(ck)
    batches, impl = [], []
    dist = {"scenarios": len(scen), "ops": 0, "starts": 0, "refused": 0, "api_calls": 0, "closure_calls": 0}
    for si, ops in enumerate(scen):
        lines, obs, bad = run_scenario(ops, eps, hook_reconnect=si % 3 == 2)
        batches.append(lines)
        impl.append(obs)
        dist["ops"] += len(lines)
        dist["starts"] += sum(1 for l in lines if l == "cl.ev callStart")
        dist["refused"] += sum(1 for o in obs if "last=alreadyConnected" in o)
        dist["api_calls"] += sum(1 for l in lines if l == "cl.ev api")
        dist["closure_calls"] += sum(1 for l in lines if l == "cl.ev closure")
        for key, what in bad:
            ck.violation("c19:" + key, "C19 violated on the implementation: " + what, {"ops": ops}, kind="scenario")
    W = 16
    groups = [list(range(k, len(batches), W)) for k in range(W)]
    outs = run_driver_parallel([sum((batches[j] for j in g), []) for g in groups])
    compared = 0
    for g, out in zip(groups, outs):
        if out is None:
            ck.disagreement("driver failed", {})
            continue
        pos = 0
        for j in g:
            for k, o in enumerate(impl[j]):
                m = out[pos + k]
                compared += 1
                if o == "SKIP":
                    continue
                if m != o:
                    ck.disagreement("client model != implementation", {"ops": scen[j], "events": batches[j][: k + 1][-8:],
                                                                       "model": m, "impl": o})
                    break
            pos += len(batches[j])
    ck.coverage.update({
        "evaluations": len(scen), "model_ops_compared": compared,
        "distinct_nontrivial": len({str(o) for o in scen}),
        "rule": "case = operation history on ONE client object over 2-4 sessions (each with an outcome: ok / resolve failure / "
                "connect failure / incompatible hello / abandoned between the phases) with close causes, API calls, stale "
                "closures and new start attempts injected at every stage, in the same turn and after an idle turn",
        "traces_validated_against_impl": len(scen),
        "samples": [scen[0], scen[len(scen) // 2]],
        "distribution": dist, "entry_points": [n for n, _ in eps], "exhaustive": False,
    })
    ck.assumptions += ["API entry points are enumerated by reflection (apisurface.py) with synthesised arguments and cycled "
                       "through the non-connected stages; lifecycle entry points themselves are the scenario operations"]
