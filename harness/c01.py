"""C01 — plaintext stream reassembly: correspondence + spec search.

implementation : APIPlaintextFrameHelper.data_received (real code, fake connection)
model          : Esp.Plain.feed via the Lean driver (`plain.feed`)
spec           : c01_prompt / c01_reassembly — after each chunk exactly the frames whose last byte has
                 arrived have been delivered (computed here from the generator's ground truth)
"""
from __future__ import annotations

import itertools

from common import Check, hx, phash, run_driver_parallel
import fh

TYPES = [0, 1, 127, 128, 16383, 16384, 2**21, 2**32 + 5]
SMALL_LENS = [0, 1, 2, 127, 128, 300]
BIG_LENS = [16383, 16384, 16385, 70000]


def varint(n: int) -> bytes:
    # independent of the code under test: canonical protobuf varint
    out = bytearray()
    while True:
        b = n & 0x7F
        n >>= 7
        if n:
            out.append(b | 0x80)
        else:
            out.append(b)
            return bytes(out)


def enc_frame(t: int, p: bytes) -> bytes:
    return b"\x00" + varint(len(p)) + varint(t) + p


def payload(rng, n):
    if n > 4096:
        seedb = bytes(rng.randrange(256) for _ in range(64))
        return (seedb * (n // 64 + 1))[:n]
    return bytes(rng.randrange(256) for _ in range(n))


def cut(stream: bytes, cuts) -> list[bytes]:
    pts = [0, *cuts, len(stream)]
    return [stream[a:b] for a, b in zip(pts, pts[1:])]


def as_type(b: bytes, k: int):
    """bytes-like objects of every flavour, including views whose len() is an ITEM count, not a byte count"""
    k %= 7
    if k == 4 and len(b) % 2 == 0 and b:
        return memoryview(bytearray(b)).cast("H")
    if k == 5 and len(b) % 4 == 0 and b:
        return memoryview(bytearray(b)).cast("I")
    if k == 6:
        import array
        return array.array("B", b)
    return (bytes(b), bytearray(b), memoryview(bytearray(b)), memoryview(b))[k % 4]


def expected_per_chunk(frames, chunks):
    """spec: frame i is delivered in the chunk in which its last byte arrives"""
    ends, pos = [], 0
    for t, p in frames:
        pos += len(enc_frame(t, p))
        ends.append(pos)
    out, got, i = [], 0, 0
    for c in chunks:
        got += len(c)
        d = []
        while i < len(frames) and ends[i] <= got:
            d.append(frames[i])
            i += 1
        out.append(d)
    return out


def show(ds):
    return "[" + " ".join(f"{t}:{len(p)}:{phash(p)}" for t, p in ds) + "]"


def gen_cases(ck: Check):
    rng, thorough = ck.rng, ck.tier == "thorough"
    cases = []  # (frames, tail, cuts)

    def add(frames, tail, cuts):
        cases.append((frames, tail, tuple(cuts)))

    # 1. boundary catalogue, single frames: every single cut
    for t in TYPES:
        for n in SMALL_LENS:
            f = [(t, payload(rng, n))]
            L = len(enc_frame(*f[0]))
            for c in range(1, L):
                add(f, b"", [c])
            add(f, b"", range(1, L))  # byte by byte
    # 2. small multi-frame streams with an incomplete tail: every single cut, every pair (<= 64 bytes)
    n_multi = 60 if thorough else 14
    for _ in range(n_multi):
        k = rng.randint(2, 5)
        frames = [(rng.choice(TYPES), payload(rng, rng.choice([0, 0, 1, 2, 3, 5, 9]))) for _ in range(k)]
        tf = enc_frame(rng.choice(TYPES), payload(rng, rng.choice([0, 1, 4, 130])))
        tail = tf[: rng.randrange(0, len(tf))]
        stream = b"".join(enc_frame(*f) for f in frames) + tail
        L = len(stream)
        for c in range(1, L):
            add(frames, tail, [c])
        if L <= 64:
            for a, b in itertools.combinations(range(1, L), 2):
                add(frames, tail, [a, b])
        add(frames, tail, range(1, L))
        # frame aligned
        pos, al = 0, []
        for f in frames:
            pos += len(enc_frame(*f))
            al.append(pos)
        add(frames, tail, [x for x in al if 0 < x < L])
        for _ in range(20 if thorough else 6):
            kk = rng.randint(2, min(8, L - 1))
            add(frames, tail, sorted(rng.sample(range(1, L), kk)))
    # 3. big payloads: cuts around every structural boundary + random
    bigs = BIG_LENS if thorough else [16383, 16384, 70000]
    for n in bigs:
        for t in ([1, 16384, 2**32 + 5] if thorough else [128]):
            frames = [(t, payload(rng, n)), (rng.choice(TYPES), payload(rng, 3))]
            stream = b"".join(enc_frame(*f) for f in frames)
            L = len(stream)
            hdr = 1 + len(varint(n)) + len(varint(t))
            e1 = len(enc_frame(*frames[0]))
            pts = set(range(1, hdr + 3)) | {e1 - 2, e1 - 1, e1, e1 + 1, e1 + 2, L - 1} | {rng.randrange(1, L) for _ in range(6)}
            for c in sorted(p for p in pts if 0 < p < L):
                add(frames, b"", [c])
            add(frames, b"", sorted(rng.sample(range(1, L), 5)))
    # 4. random longer streams
    for _ in range(400 if thorough else 60):
        k = rng.randint(1, 5)
        frames = [(rng.choice(TYPES + [rng.randrange(1, 2**40)]), payload(rng, rng.choice(SMALL_LENS + [rng.randrange(0, 600)])))
                  for _ in range(k)]
        stream = b"".join(enc_frame(*f) for f in frames)
        L = len(stream)
        for _ in range(10 if thorough else 4):
            kk = rng.randint(1, min(10, L - 1))
            add(frames, b"", sorted(rng.sample(range(1, L), kk)))
    # 5. very many frames in ONE chunk (and in two or three): every one is delivered when its chunk has been handed over,
    # however many there are
    for k in ([100, 129, 257, 1000, 4000] if thorough else [129, 600 + rng.randrange(400)]):
        frames = [(rng.choice(TYPES), payload(rng, rng.choice([0, 0, 1, 2, 3]))) for _ in range(k)]
        stream = b"".join(enc_frame(*f) for f in frames)
        tf = enc_frame(rng.choice(TYPES), payload(rng, 9))
        add(frames, b"", [])
        add(frames, tf[: rng.randrange(1, len(tf))], [])
        add(frames, b"", sorted(rng.sample(range(1, len(stream)), 2)))
    return cases


def run_impl(frames, tail, cuts, tyk):
    stream = b"".join(enc_frame(*f) for f in frames) + tail
    chunks = cut(stream, cuts)
    h, conn, tr = fh.make_plain()
    per = []
    for i, c in enumerate(chunks):
        before = len(conn.delivered)
        obj = as_type(c, tyk + i)
        r = fh.deliver(h, conn, tr, obj)
        # a receiver may reuse its read buffer for the next read: scribble over the caller's mutable object
        # (the helper must have copied what it retains)
        if isinstance(obj, bytearray):
            obj[:] = b"\xee" * len(obj)
            obj += b"\xee"
        elif isinstance(obj, memoryview):
            base = obj.obj
            if isinstance(base, bytearray) and obj.format == "B":
                base[:] = b"\xee" * len(base)
        per.append((conn.delivered[before:], fh.err_class(conn.errors[0]) if conn.errors else "none", r))
    return chunks, per


def run(ck: Check):
    cases = gen_cases(ck)
    # corpus first
    lines_per_case, impl_obs, spec_bad = [], [], 0
    distinct = set()
    hist = {"chunks": {}, "frames": {}}
    for idx, (frames, tail, cuts) in enumerate(cases):
        chunks, per = run_impl(frames, tail, cuts, idx)
        exp = expected_per_chunk(frames, chunks)
        lines = ["plain.reset"] + [f"plain.feed {hx(c)}" for c in chunks]
        obs = ["ok"] + [f"d {show(d)} closed={e}" for d, e, _ in per]
        lines_per_case.append(lines)
        impl_obs.append(obs)
        distinct.add((tuple((t, len(p)) for t, p in frames), len(tail), cuts))
        hist["chunks"][len(chunks)] = hist["chunks"].get(len(chunks), 0) + 1
        hist["frames"][len(frames)] = hist["frames"].get(len(frames), 0) + 1
        # spec check (independent of the model)
        got = [d for d, _, _ in per]
        errs = [e for _, e, _ in per if e != "none"]
        if got != exp or errs:
            spec_bad += 1
            first = next((i for i, (g, e) in enumerate(zip(got, exp)) if g != e), None)
            ck.violation(
                key=f"plain-reassembly:{[(t, len(p)) for t, p in frames]}:{list(cuts)}",
                what=f"plaintext helper delivered {show(sum(got, []))} but the device sent {show(frames)}"
                     f" (first differing chunk {first}, errors {errs})",
                replay={"frames": [[t, p.hex()] for t, p in frames], "tail": tail.hex(), "cuts": list(cuts),
                        "expected_per_chunk": [show(e) for e in exp], "observed_per_chunk": [show(g) for g in got],
                        "errors": errs},
            )
            if spec_bad >= 5:
                break
    # a handler that raises while a frame is being handed over, under a transport that (unlike asyncio's, which closes on the
    # first exception out of data_received) keeps feeding: the frame being handed over counts as handed over - nothing is
    # handed over twice and nothing is lost (when the frames behind it are handed over is not judged here)
    n_raise = 0
    for trial in range(60 if ck.tier == "thorough" else 12):
        k = ck.rng.randint(2, 6)
        frames = [(ck.rng.choice(TYPES), payload(ck.rng, ck.rng.choice([0, 1, 2, 5, 9]))) for _ in range(k)]
        bad_at = ck.rng.randrange(k)
        stream = b"".join(enc_frame(*f) for f in frames)
        cuts = sorted(ck.rng.sample(range(1, len(stream)), min(2, len(stream) - 1))) if trial % 2 else []
        h, conn, tr = fh.make_plain()
        orig = conn.process_packet
        state = {"n": 0}

        def raising(t, data, orig=orig, state=state, bad_at=bad_at):
            orig(t, data)
            state["n"] += 1
            if state["n"] == bad_at + 1:
                raise ValueError("a subscriber raised")

        conn.process_packet = raising
        extra = (ck.rng.choice(TYPES), b"\x01\x02")
        for c in cut(stream, cuts) + [enc_frame(*extra), b""]:
            try:
                h.data_received(c)
            except ValueError:
                pass
        n_raise += 1
        want = frames + [extra]
        if conn.delivered != want:
            ck.violation(f"plain-raise-redelivery:{[(t, len(p)) for t, p in frames]}:{bad_at}:{cuts}",
                         f"the handler of frame {bad_at} raised once; with the stream fed on, the helper handed over {show(conn.delivered)} "
                         f"for the frames {show(want)} (each exactly once, in order)",
                         {"frames": [[t, p.hex()] for t, p in frames], "raising_frame": bad_at, "cuts": cuts,
                          "observed": show(conn.delivered)})
    # model vs implementation
    disagreements = 0
    if ck.driver_ok:
        nb = 16
        batches = [sum(lines_per_case[i::nb], []) for i in range(nb)]
        outs = run_driver_parallel(batches)
        for b in range(nb):
            exp_lines = sum(impl_obs[b::nb], [])
            out = outs[b]
            if out is None:
                ck.disagreement("driver failed", {"batch": b})
                continue
            for li, (m, o) in enumerate(zip(out, exp_lines)):
                # the model also prints buf=…; the implementation's buffer is internal and not compared
                m2 = " ".join(w for w in m.split(" ") if not w.startswith("buf="))
                if m2 != o:
                    disagreements += 1
                    ck.disagreement("plain.feed: model != implementation",
                                    {"line": batches[b][li][:200], "model": m2[:300], "impl": o[:300]})
                    break
    else:
        ck.disagreement("Lean driver unavailable (build failed): model not executed", {})
    ck.coverage.update({
        "evaluations": len(cases),
        "distinct_nontrivial": len([d for d in distinct if len(d[2]) >= 1]),
        "rule": "case = (frame list from the boundary catalogue, incomplete tail, cut positions); distinct by "
                "((type, payload length) list, tail length, cut tuple); non-trivial = at least one cut",
        "traces_validated_against_impl": len(cases) if ck.driver_ok else 0,
        "disagreements_checked": disagreements,
        "samples": [
            {"frames": [[t, len(p)] for t, p in cases[i][0]], "tail_len": len(cases[i][1]), "cuts": list(cases[i][2])[:12]}
            for i in (0, len(cases) // 3, len(cases) // 2, len(cases) - 1)
        ],
        "distribution": {k: dict(sorted(v.items())) for k, v in hist.items()},
        "exhaustive": False,
    })
    ck.assumptions += [
        "bytes-like chunk types (bytes/bytearray/memoryview) are Python glue: covered by the correspondence only",
        "after the helper closes its transport the event loop makes no further data_received calls",
        "the raising-handler scenarios feed on after an exception out of data_received, which asyncio's transports never do "
        "(they close): judged by the oracle only (exactly once, in order), not part of the model",
    ]
