"""C18 — reconnect manager: one attempt at a time, specified backoff, clean stop.

implementation : the real ReconnectLogic around the real APIClient on SimNet (virtual time, one ready handle at a time):
                 start()/stop() calls, completion of the attempt's socket / hello+login (ok, refused, wrong password, reset),
                 session endings (reset = unexpected, device DisconnectRequest = expected), mDNS record updates through a fake
                 zeroconf (PTR/A, matching or not), the retry timer; every op may fall between any two ready handles
model          : Esp.Reconnect via the Lean driver (`rc.*`): after EVERY op the manager's state, try count, timer, lock,
                 waiters, client phase, tasks alive / in flight, ready handles and the callbacks/calls made are compared
spec (on impl) : the property's clauses judged on the implementation's own trace (see `Oracle`)
"""
from __future__ import annotations

import asyncio
from asyncio import tasks
import itertools
import sys

import zeroconf
from zeroconf.const import _CLASS_IN, _TYPE_A, _TYPE_PTR, _TYPE_TXT

from aioesphomeapi import APIClient, api_pb2 as pb
from aioesphomeapi import core
import aioesphomeapi.client as aclient
import aioesphomeapi.connection as ac
import aioesphomeapi.reconnect_logic as rl

from common import Check, run_driver_parallel
import simnet

NAME = "dev"


class FakeZc:
    def __init__(self, log):
        self.listeners, self.log = [], log
        self.zeroconf = self

    def async_add_listener(self, l, q):
        self.listeners.append(l)
        self.log.append("zc_add")

    def async_remove_listener(self, l):
        self.listeners.remove(l)
        self.log.append("zc_remove")


def record(kind):
    if kind == "ptr":
        return zeroconf.DNSPointer("_esphomelib._tcp.local.", _TYPE_PTR, _CLASS_IN, 1000, f"{NAME}._esphomelib._tcp.local."), True
    if kind == "a":
        return zeroconf.DNSAddress(f"{NAME}.local.", _TYPE_A, _CLASS_IN, 1000, b"\x0a\x00\x00\x01"), True
    if kind == "ptr_other":
        return zeroconf.DNSPointer("_esphomelib._tcp.local.", _TYPE_PTR, _CLASS_IN, 1000, "other._esphomelib._tcp.local."), False
    if kind == "a_other":
        return zeroconf.DNSAddress("other.local.", _TYPE_A, _CLASS_IN, 1000, b"\x0a\x00\x00\x02"), False
    if kind == "txt":   # right name, wrong type
        return zeroconf.DNSText(f"{NAME}.local.", _TYPE_TXT, _CLASS_IN, 1000, b"x"), False
    raise ValueError(kind)


_fx = [0]
# "authentication or encryption errors", from the property text - NOT the library's own constant
from aioesphomeapi.core import InvalidAuthAPIError as _IA, InvalidEncryptionKeyAPIError as _IK, RequiresEncryptionAPIError as _RE  # noqa: E402
AUTH_KINDS = (_IA, _IK, _RE)


class ObservedClient(APIClient):
    """the real client; calls of start_connection are logged"""
    bench = None

    async def start_connection(self, on_stop=None):
        self.bench.acts.append("attempt")
        self.bench.fin_delivered = False
        await super().start_connection(on_stop=on_stop)

    async def finish_connection(self, *, login):
        # the failure really happens (wrong password / reset during the handshake); what the manager is shown rotates over
        # the library's error classes of the same kind: authentication / encryption errors on one side, everything else on
        # the other ("60 s after authentication or encryption errors" is a statement about classes)
        from aioesphomeapi import core as _c
        try:
            await super().finish_connection(login=login)
        except _c.APIConnectionError as e:
            _fx[0] += 1
            if isinstance(e, _c.InvalidAuthAPIError):
                sub = [None, _c.InvalidEncryptionKeyAPIError("k"), _c.RequiresEncryptionAPIError("r")][_fx[0] % 3]
            elif isinstance(e, (_c.APIConnectionCancelledError,)) or type(e).__name__ == "APIConnectionCancelledError":
                sub = None
            else:
                sub = [None, _c.HandshakeAPIError("h"), _c.BadNameAPIError("n", "x"), _c.ProtocolAPIError("p"), _c.TimeoutAPIError("t"),
                       _c.SocketClosedAPIError("s"), _c.ReadFailedAPIError("r"), _c.APIConnectionError("a"), _c.PingFailedAPIError("p"),
                       _c.ResolveAPIError("r")][_fx[0] % 10]
            if sub is None:
                raise
            raise sub from e


class ObservedLogic(rl.ReconnectLogic):
    """the real manager; only the writes of the failure counter made by start() are made visible"""
    acts = None

    @property
    def _tries(self):
        return self.__dict__["_t"]

    @_tries.setter
    def _tries(self, v):
        caller = sys._getframe(1).f_code.co_name
        if v == 0 and caller == "start" and self.acts is not None:
            self.acts.append("reset_tries")
        if caller == "_handle_connection_failure" and self.acts is not None:
            # (counting the 100th consecutive ordinary failure also gives 100: there the two writes coincide and the error
            # that is being handled says which one it is)
            jump = v == rl.MAXIMUM_BACKOFF_TRIES and (self.__dict__.get("_t") != v - 1 or self.__dict__.get("_err_auth", False))
            self.acts.append("fail_counted:" + ("auth" if jump else "other"))
        self.__dict__["_t"] = v

    async def stop(self):
        await super().stop()
        if self.acts is not None:
            self.acts.append("stop_ret")

    async def _handle_connection_failure(self, err):
        # on_connect_error is optional: without it the report is made visible here (same place in the order of events)
        if self._on_connect_error_cb is None and self.acts is not None:
            self.acts.append("on_connect_error:" + ("auth" if isinstance(err, AUTH_KINDS) else "other"))
        self.__dict__["_err_auth"] = isinstance(err, AUTH_KINDS)
        await super()._handle_connection_failure(err)


_nocb = [0]


class Bench:
    def __init__(self, has_name=True, susp=(False, False, False)):
        self.susp = susp          # which user callbacks await something: (on_connect, on_connect_error, on_disconnect)
        # on_connect_error is an optional argument of the manager: every third bench whose error callback would not suspend
        # anyway is built without one
        _nocb[0] += 1
        self.no_error_cb = (not susp[1]) and _nocb[0] % 3 == 0
        self.cb_futs = []
        self.cb_all = []          # every future a callback ever awaited (to tell 'inside a callback' from 'inside a client call')
        self.net = simnet.Net(base=1000.0)
        self.loop = self.net.loop
        self.net.auto_resolve = True
        self.loop.create_connection = self._create_connection      # no suspension: every wake of an attempt is model-level
        self.acts: list[str] = []
        self.client = ObservedClient("10.0.0.1", 6053, "pw", keepalive=1e6)
        self.client.bench = self
        self.fzc = FakeZc(self.acts)
        self.client.zeroconf_manager._aiozc = self.fzc
        self.rc_tasks = []
        self._orig_eager = (rl.create_eager_task, aclient.create_eager_task)
        rl.create_eager_task = self._eager(rl.create_eager_task)
        aclient.create_eager_task = self._eager(aclient.create_eager_task)

        async def maybe_suspend(i):
            if self.susp[i]:
                f = self.loop.create_future()
                self.cb_futs.append(f)
                self.cb_all.append(f)
                await f

        async def on_connect():
            self.acts.append("on_connect")
            await maybe_suspend(0)

        async def on_disconnect(expected):
            self.acts.append(f"on_disconnect:{int(bool(expected))}")
            await maybe_suspend(2)

        async def on_connect_error(err):
            self.acts.append("on_connect_error:" + ("auth" if isinstance(err, AUTH_KINDS) else "other"))
            self.errors.append(type(err).__name__)
            await maybe_suspend(1)

        self.errors = []
        self.mgr = ObservedLogic(client=self.client, on_connect=on_connect, on_disconnect=on_disconnect,
                                 name=NAME if has_name else None, on_connect_error=None if self.no_error_cb else on_connect_error)
        self.mgr.acts = self.acts
        orig_call_at = self.loop.call_at

        def call_at(when, cb, *a, **kw):
            if getattr(cb, "__name__", "") == "_call_connect_once":
                self.acts.append(f"arm:{round(when - self.loop.time())}")
                if abs((when - self.loop.time()) - round(when - self.loop.time())) > 1e-9:
                    self.acts.append(f"arm-fraction:{when - self.loop.time()}")
            return orig_call_at(when, cb, *a, **kw)

        self.loop.call_at = call_at
        self.fin_delivered = False
        self.lines = [f"rc.new {int(has_name)} {int(susp[0])} {int(susp[1])} {int(susp[2])}"]
        self.obs = ["ok"]
        self.trace = []   # (op, acts, snapshot) for the oracle

    def close(self):
        rl.create_eager_task, aclient.create_eager_task = self._orig_eager
        self.mgr._is_stopped = True
        for _ in range(4):
            for t in self.rc_tasks:
                if not t.done():
                    t.cancel()
            self.loop.run_idle()
        for t in self.rc_tasks:
            if t.done() and not t.cancelled():
                t.exception()
        self.net.close()

    def _eager(self, orig):
        def create(coro, **kw):
            t = orig(coro, **kw)
            self.rc_tasks.append(t)
            return t
        return create

    async def _create_connection(self, factory, sock=None, **kw):
        protocol = factory()
        tr = simnet.SimTransport(self.loop, protocol, sock)
        self.net.transports.append(tr)
        protocol.connection_made(tr)
        return tr, protocol

    # ------------------------------------------------------------ classification of ready handles
    def kind_of_task(self, t):
        n = t.get_name()
        if n in ("rc-start", "rc-stop"):
            return n[3:]
        q = getattr(t.get_coro(), "__qualname__", "")
        if q == "ReconnectLogic._connect_once_or_reschedule":
            return "connect"
        if q == "ReconnectLogic._on_disconnect":
            return "disc"
        if q.endswith("Logic.stop"):
            return "stop"
        return None

    def kind_of_handle(self, h):
        cb = h._callback
        self_ = getattr(cb, "__self__", None)
        if isinstance(self_, tasks._PyTask):
            return self.kind_of_task(self_)
        if getattr(cb, "__name__", "") == "_call_connect_once":
            return "timer"
        return None

    def pop(self):
        loop = self.loop
        while loop._ready:
            h = loop._ready.popleft()
            if h._cancelled:
                continue
            k = self.kind_of_handle(h)
            h._run()
            if k:
                return k
        return "idle"

    # ------------------------------------------------------------ observation
    def alive_tasks(self):
        return [t for t in self.rc_tasks if not t.done() and self.kind_of_task(t)]

    def snapshot(self):
        m, loop = self.mgr, self.loop
        th = m._connect_timer
        timer = "-"
        if th is not None and not th._cancelled:
            if th in loop._ready:
                timer = "due"
            elif th in loop._scheduled:
                timer = str(round(th._when - loop.time()))
        lock = m._connected_lock
        waiters = list(lock._waiters or [])
        conn = self.client._connection
        cli = "idle" if conn is None else ("live" if conn.is_connected else "busy")
        alive = self.alive_tasks()
        # inside a client call: a connect task that waits neither for the lock nor inside a user callback
        inflight = sum(1 for t in alive if self.kind_of_task(t) == "connect" and t._fut_waiter not in waiters
                       and t._fut_waiter not in self.cb_all)
        ready = sum(1 for h in loop._ready if not h._cancelled and self.kind_of_handle(h))
        # session ends not reported yet: _on_disconnect tasks still waiting for the lock
        pd = sum(1 for t in alive if self.kind_of_task(t) == "disc" and t._fut_waiter in waiters)
        return (f"st={m._connection_state.name} acc={int(m._accept_zeroconf_records)} stopped={int(m._is_stopped)} "
                f"zc={int(m._zc_listening)} tries={m._tries} timer={timer} locked={int(lock.locked())} waiters={len(waiters)} "
                f"cli={cli} inflight={inflight} alive={len(alive)} ready={ready} pd={pd}")

    def emit(self, ev, head="-"):
        acts, self.acts[:] = list(self.acts), []
        snap = self.snapshot()
        self.lines.append("rc.ev " + ev)
        self.obs.append(f"head={head} acts=[{' '.join(acts)}] {snap}")
        self.trace.append((ev, acts, snap))

    # ------------------------------------------------------------ ops
    def conn_phase(self):
        conn = self.client._connection
        if conn is None:
            return "none"
        if conn.is_connected:
            return "live"
        if conn._frame_helper is not None and conn.connection_state is not ac.CONNECTION_STATE_CLOSED:
            return "finishing"
        return "other"

    def op(self, op):
        net, loop, mgr = self.net, self.loop, self.mgr
        k = op.split(":")
        if op == "start":
            async def go():
                await mgr.start()
                self.acts.append("start_ret")
            self.rc_tasks.append(tasks._PyTask(go(), loop=loop, name="rc-start", eager_start=True))
            self.emit("start")
        elif op == "stop":
            self.rc_tasks.append(tasks._PyTask(mgr.stop(), loop=loop, name="rc-stop", eager_start=True))
            self.emit("stop")
        elif op == "stopcb":
            # the synchronous entry point: the manager makes the stop() task itself (seen through create_eager_task)
            mgr.stop_callback()
            self.emit("stop")
        elif k[0] == "sock":
            pend = [f for f in net.sock_futs if not f.done()]
            if pend:
                f = pend[0]
                f.set_result(None) if k[1] == "ok" else f.set_exception(OSError(111, "refused"))
            net.sock_futs[:] = [f for f in net.sock_futs if not f.done()]
            self.emit("startDone " + ("ok" if k[1] == "ok" else "other"))
        elif k[0] == "fin":
            if self.conn_phase() == "finishing" and not self.fin_delivered:
                self.fin_delivered = True
                if k[1] == "ok":
                    net.send(simnet.hello_response(), simnet.connect_response(False))
                elif k[1] == "auth":
                    net.send(simnet.hello_response(), simnet.connect_response(True))
                else:
                    net.tr._call_connection_lost(ConnectionResetError(104, "reset"))
            self.emit("finishDone " + {"ok": "ok", "auth": "auth", "reset": "other"}[k[1]])
        elif k[0] == "end":
            if self.conn_phase() == "live":
                if k[1] == "reset":
                    net.tr._call_connection_lost(ConnectionResetError(104, "reset"))
                else:
                    net.send(pb.DisconnectRequest())
            self.emit("sessionEnd " + ("0" if k[1] == "reset" else "1"))
        elif k[0] == "zc":
            # one batch of records, as zeroconf delivers them: "ptr_other+txt+a" = three records in one update; the batch
            # matches when any record in it does
            recs = [record(x) for x in k[1].split("+")]
            matching = any(m for _, m in recs)
            for l in list(self.fzc.listeners):
                l.async_update_records(None, loop.time(), [zeroconf.RecordUpdate(r, None) for r, _ in recs])
            self.emit(f"zc {int(matching)}")
        elif op == "timer":
            th = mgr._connect_timer
            if th is not None and not th._cancelled and th in loop._scheduled:
                loop._scheduled.remove(th)
                import heapq
                heapq.heapify(loop._scheduled)
                th._scheduled = False
                loop._vt = max(loop._vt, th._when)
                loop._ready.append(th)
            self.emit("timerDue")
        elif k[0] == "wait":
            dt = int(k[1])
            th = mgr._connect_timer
            armed = th is not None and not th._cancelled and th in loop._scheduled
            if not armed or loop._vt + dt <= th._when + 1e-9:
                loop._vt += dt
            self.emit(f"wait {dt}")
        elif op == "cb_done":
            # the user callback some task is suspended in returns (oldest first; a cancelled one is skipped)
            self.cb_futs[:] = [f for f in self.cb_futs if not f.done()]
            if self.cb_futs:
                self.cb_futs.pop(0).set_result(None)
            self.emit("cbDone")
        elif op == "pop":
            head = self.pop()
            self.emit("pop", head)
        elif op == "settle":
            for _ in range(64):
                head = self.pop()
                self.emit("pop", head)
                if head == "idle":
                    break
        else:
            raise ValueError(op)


OPS = ["start", "stop", "stopcb", "sock:ok", "sock:fail", "fin:ok", "fin:auth", "fin:reset", "end:reset", "end:dev",
       "zc:ptr", "zc:a", "zc:ptr_other", "zc:a_other", "zc:txt", "zc:ptr_other+ptr", "zc:txt+a_other+a", "zc:txt+ptr_other", "zc:a+ptr", "timer", "wait:1", "wait:3", "pop", "settle", "cb_done"]

# histories for user callbacks that await something: the task sits in the callback, holding the lock, until cb_done
CB = ["cb_done", "settle"]
SUSP_SKELETONS = {
    "s-happy": ["start", "settle", "sock:ok", "settle", "fin:ok", "settle"] + CB + ["end:reset", "settle"] + CB + ["sock:ok", "settle",
                "fin:ok", "settle"] + CB + ["end:dev", "settle"] + CB + ["timer", "settle", "sock:ok", "settle", "fin:ok", "settle"] + CB +
               ["stop", "settle"],
    "s-fail": ["start", "settle", "sock:fail", "settle"] + CB + ["timer", "settle", "sock:ok", "settle", "fin:auth", "settle"] + CB +
              ["zc:ptr", "settle", "sock:ok", "settle", "fin:ok", "settle"] + CB + ["stop", "settle"],
    "s-stop-in-cb": ["start", "settle", "sock:fail", "settle", "stop", "settle", "cb_done", "settle", "start", "settle", "sock:ok",
                     "settle", "fin:ok", "settle", "stop", "end:reset", "settle", "cb_done", "settle", "cb_done", "settle"],
    "s-end-in-on-connect": ["start", "settle", "sock:ok", "settle", "fin:ok", "settle", "end:reset", "settle", "zc:ptr", "timer",
                            "cb_done", "settle", "cb_done", "settle", "sock:ok", "settle", "fin:ok", "settle"] + CB,
    "s-zc-in-error-cb": ["start", "settle", "sock:fail", "settle", "zc:ptr", "settle", "start", "cb_done", "settle", "zc:a", "settle",
                         "sock:ok", "settle", "fin:reset", "settle", "zc:ptr", "cb_done", "settle", "timer", "settle"],
    # the mDNS listener is still registered from the first failure while the second failure is being reported
    "s-zc-in-second-error-cb": ["start", "settle", "sock:fail", "settle", "cb_done", "settle", "timer", "settle", "sock:fail", "settle",
                                "zc:ptr", "settle", "cb_done", "settle", "timer", "settle", "sock:fail", "settle", "zc:a", "settle",
                                "cb_done", "settle", "timer", "settle", "sock:ok", "settle", "fin:ok", "settle"] + CB,
}

SKELETONS = {
    "happy": ["start", "settle", "sock:ok", "settle", "fin:ok", "settle", "end:reset", "settle", "sock:ok", "settle", "fin:ok",
              "settle", "end:dev", "settle", "timer", "settle", "sock:ok", "settle", "fin:ok", "settle", "stop", "settle"],
    "backoff": ["start", "settle"] + ["sock:fail", "settle", "timer", "settle"] * 12 + ["stop", "settle"],
    "auth": ["start", "settle", "sock:ok", "settle", "fin:auth", "settle", "timer", "settle", "sock:ok", "settle", "fin:ok",
             "settle", "stop", "settle", "end:reset", "settle"],
    "zc-retry": ["start", "settle", "sock:fail", "settle", "wait:1", "zc:ptr", "settle", "sock:fail", "settle", "zc:a", "pop",
                 "zc:ptr", "settle", "sock:ok", "settle", "timer", "settle", "fin:ok", "settle", "timer", "settle", "stop", "settle"],
    "stop-start-live": ["start", "settle", "sock:ok", "settle", "fin:ok", "settle", "stop", "settle", "start", "end:reset",
                        "settle", "sock:ok", "settle", "fin:ok", "settle", "timer", "settle", "end:dev", "settle", "stop", "settle"],
    "stop-early": ["start", "stop", "settle", "start", "settle", "stop", "settle", "start", "settle", "sock:ok", "stop", "settle",
                   "start", "settle", "sock:ok", "settle", "stop", "fin:ok", "settle", "end:reset", "settle", "start", "settle"],
    "fin-fail": ["start", "settle", "sock:ok", "settle", "fin:reset", "settle", "timer", "settle", "sock:ok", "settle", "fin:reset",
                 "settle", "zc:ptr", "settle", "sock:ok", "settle", "fin:ok", "settle"],
}


SKELETONS["zc-batches"] = ["start", "settle", "sock:fail", "settle", "zc:txt+ptr_other", "settle", "zc:ptr_other+ptr", "settle", "sock:fail",
                           "settle", "zc:txt+a_other+a", "settle", "sock:ok", "settle", "fin:ok", "settle", "zc:a+ptr", "settle"]
for _n in ("happy", "stop-early", "stop-start-live"):
    SKELETONS[_n + "/stopcb"] = ["stopcb" if o == "stop" else o for o in SKELETONS[_n]]
SUSP_SKELETONS["s-stop-in-cb/stopcb"] = ["stopcb" if o == "stop" else o for o in SUSP_SKELETONS["s-stop-in-cb"]]


class Oracle:
    """the property's clauses on the implementation's own trace"""

    def __init__(self, susp=(False, False, False), has_name=True):
        self.problems = []
        self.susp = susp
        self.has_name = has_name

    def judge(self, trace):
        fails, last_cb, cb_seq = 0, None, []
        attempts = outcomes = 0
        stopped_final = False      # stop() has returned, start() was not called since and no earlier start() is still pending
        pending_starts = 0
        uncounted = None
        reported_kind = "other"
        prev_snap = None
        for i, (ev, acts, snap) in enumerate(trace):
            f = dict(x.split("=") for x in snap.split())
            if ev == "start":
                stopped_final = False
                pending_starts += 1
            if ev == "stop":
                uncounted = None       # stop() abandons the failure being reported (it cancels the attempt's task)
            pf0 = dict(x.split("=") for x in prev_snap.split()) if prev_snap is not None else None
            for j, a in enumerate(acts):
                if a == "attempt":
                    attempts += 1
                    # "after the n-th consecutive failed attempt": every reported failure is counted before the next
                    # attempt starts (only stop() may abandon it)
                    if uncounted is not None:
                        self.problems.append(("c18:failure-not-counted", i,
                                              f"a new attempt started although the failure reported at step {uncounted} was never counted"))
                        uncounted = None
                    # "never while handshaking or connected": the manager's state only leaves READY through on_disconnect
                    # (or stop()), and HANDSHAKING through the attempt's own outcome, both visible earlier in this op
                    if pf0 is not None and pf0["st"] in ("READY", "HANDSHAKING") and not any(
                            x.startswith(("on_disconnect", "on_connect_error", "on_connect")) for x in acts[:j]):
                        self.problems.append(("c18:attempt-while-" + pf0["st"].lower(), i,
                                              f"a connection attempt was started while the manager was {pf0['st']}: {acts}"))
                    if stopped_final:
                        self.problems.append(("c18:attempt-after-stop", i, "a connection attempt was started after stop() had returned"))
                elif a == "on_connect":
                    outcomes += 1
                    fails = 0
                    cb_seq.append("c")
                elif a.startswith("on_disconnect"):
                    cb_seq.append("d")
                    # unexpected -> immediately (no timer), expected -> 5 s, unless stopped
                    if f["stopped"] == "0" and not self.susp[2]:   # (when on_disconnect awaits, the rescheduling comes after it)
                        rest = acts[j + 1:]
                        if a.endswith(":1") and "arm:5" not in rest:
                            self.problems.append(("c18:cooldown", i, f"expected disconnect not followed by a 5 s cool-down: {rest}"))
                        if a.endswith(":0") and not ("attempt" in rest or int(f["alive"]) > 0):
                            self.problems.append(("c18:no-immediate-retry", i, f"unexpected disconnect not followed by an immediate attempt: {rest}"))
                elif a.startswith("on_connect_error"):
                    outcomes += 1
                    uncounted = i
                    reported_kind = a.split(":")[1]
                elif a.startswith("fail_counted"):
                    uncounted = None
                    # the failure is counted when on_connect_error has returned; the retry timer follows at once.  Whether it
                    # is an authentication / encryption error is judged on the error that was reported, by its class
                    fails = 100 if reported_kind == "auth" else fails + 1
                    want = min(round(1.8 ** min(fails, 10)), 60) if fails < 100 else 60
                    arms = [x for x in acts[j + 1:] if x.startswith("arm:")]
                    # "immediately when an mDNS record for the device is seen while it is waiting": while the retry timer runs
                    # the manager listens (when it knows the device's name), after EVERY failure
                    if self.has_name and arms and arms[0] != "arm:0" and f["zc"] != "1" and f["stopped"] == "0":
                        self.problems.append(("c18:not-listening-while-waiting", i, f"after failure #{fails if fails < 100 else 'auth'} the retry "
                                              f"timer is armed ({arms[0]}) but the manager does not listen to mDNS"))
                    if not arms or arms[0] != f"arm:{want}":
                        self.problems.append((f"c18:backoff:n={fails}", i, f"after failure #{fails} the retry timer is {arms[:1]}, specified arm:{want}"))
                elif a == "reset_tries":
                    fails = 0
                elif a == "start_ret":
                    pending_starts -= 1
                elif a == "stop_ret":
                    stopped_final = pending_starts == 0
                elif a == "zc_add" and stopped_final:
                    self.problems.append(("c18:listen-after-stop", i, "mDNS listener added after stop() had returned"))
                elif a.startswith("arm-fraction"):
                    self.problems.append(("c18:backoff-fraction", i, a))
            if int(f["inflight"]) > 1:
                self.problems.append(("c18:two-attempts", i, f"{f['inflight']} connection attempts in flight"))
            if f["cli"] == "live" and int(f["inflight"]) > 0:
                self.problems.append(("c18:attempt-while-live", i, "an attempt is in flight while a session is live"))
            if stopped_final and (f["zc"] == "1" or f["timer"] != "-"):
                self.problems.append(("c18:armed-after-stop", i, f"after stop() returned: zc={f['zc']} timer={f['timer']}"))
            if ev.startswith("zc") and prev_snap is not None:
                pf = dict(x.split("=") for x in prev_snap.split())
                if pf["st"] in ("HANDSHAKING", "READY") and (acts or snap != prev_snap):
                    self.problems.append(("c18:zc-while-connected", i, f"an mDNS record in state {pf['st']} had an effect: {acts}"))
                # "immediately when an mDNS record for the device is seen while it is waiting": a batch with a matching record,
                # while the manager listens and accepts, takes the listener down and goes for an attempt at once
                if ev == "zc 1" and pf["zc"] == "1" and pf["acc"] == "1" and pf["stopped"] == "0" and "zc_remove" not in acts:
                    self.problems.append(("c18:zc-ignored", i, f"a matching mDNS record while waiting (state {pf['st']}) was ignored: {acts}"))
                if ev == "zc 0" and (acts or snap != prev_snap):
                    self.problems.append(("c18:zc-nonmatching", i, f"a non-matching mDNS record had an effect: {acts}"))
            prev_snap = snap
        # the manager running (not stopped) and believing it is DISCONNECTED while a session is live: only reachable by
        # stop() followed by start() during a live session
        # (Esp.C18.c18_alternate_unless_restarted: in the model this is the only way the alternation can fail; `pd` = session
        # ends not reported yet)
        # the recorded finding is the session-live case; an alternation failure after "end unreported" only (none exists on the
        # unchanged tree) gets its own key and is reported
        def is_bad(snap, live_only):
            f = dict(x.split("=") for x in snap.split())
            return f["st"] == "DISCONNECTED" and f["stopped"] == "0" and (f["cli"] == "live" or (not live_only and int(f.get("pd", 0)) > 0))
        bad = any(is_bad(snap, True) for _, _, snap in trace)
        bad_pd = any(is_bad(snap, False) for _, _, snap in trace)
        for a, b_ in zip(cb_seq, cb_seq[1:]):
            if a == b_:
                self.problems.append(("c18:alternation" + (":restarted-while-session-live" if bad else (":restarted-before-end-reported" if bad_pd else "")), len(trace) - 1, f"on_connect / on_disconnect sequence {''.join(cb_seq)} does not alternate"))
                break
        if cb_seq and cb_seq[0] != "c":
            self.problems.append(("c18:alternation", 0, "on_disconnect before any on_connect"))
        return self.problems


def run_one(ops, has_name=True, susp=(False, False, False)):
    b = Bench(has_name, susp)
    try:
        for o in ops:
            b.op(o)
        # quiesce: everything pending is run so that "each attempt has exactly one outcome" can be judged
        b.op("settle")
        for _ in range(4):
            if any(not f.done() for f in b.cb_futs):
                b.op("cb_done")
                b.op("settle")
        return b.lines, b.obs, b.trace, list(b.errors)
    finally:
        b.close()


def scenarios(rng, thorough):
    out = []
    for name, sk in SKELETONS.items():
        out.append((name, list(sk), True))
        # every op inserted at every position
        poss = range(len(sk) + 1)
        for pos in poss:
            for o in OPS:
                if thorough or rng.random() < 0.35:
                    out.append((f"{name}+{o}@{pos}", sk[:pos] + [o] + sk[pos:], True))
        if thorough:
            for pos in poss:
                for o1, o2 in itertools.product(["start", "stop", "zc:ptr", "timer", "end:reset", "pop", "sock:ok", "fin:ok"], repeat=2):
                    if rng.random() < 0.3:
                        out.append((f"{name}+{o1},{o2}@{pos}", sk[:pos] + [o1, o2] + sk[pos:], True))
    out.append(("noname", list(SKELETONS["zc-retry"]), False))
    # "for every n": a device that stays away for a very long time - after the 1300th consecutive failure the manager still
    # retries, once a minute (no insertions here: the run itself is the point)
    out.append(("backoff-long", ["start", "settle"] + ["sock:fail", "settle", "timer", "settle"] * 1300 + ["stop", "settle"], True))
    NOS = (False, False, False)
    out = [(n, o, h, NOS) for n, o, h in out]
    # user callbacks that await something: all three suspend, or one of them
    ALL = (True, True, True)
    for name, sk in SUSP_SKELETONS.items():
        out.append((name, list(sk), True, ALL))
        for pos in range(len(sk) + 1):
            for o in OPS:
                if thorough or rng.random() < 0.3:
                    out.append((f"{name}+{o}@{pos}", sk[:pos] + [o] + sk[pos:], True, ALL))
    for name, sk in SKELETONS.items():
        for susp in ((True, False, False), (False, True, False), (False, False, True)):
            out.append((f"{name}/susp{susp}", [x for o in sk for x in ([o] if o != "settle" else ["settle", "cb_done", "settle"])], True, susp))
    weights = {"pop": 5, "settle": 3, "start": 2, "stop": 2, "sock:ok": 3, "sock:fail": 2, "fin:ok": 3, "timer": 3, "zc:ptr": 2,
               "end:reset": 2, "end:dev": 1}
    bag = [o for o in OPS for _ in range(weights.get(o, 1))]
    for i in range(3000 if thorough else 400):
        n = rng.randrange(4, 40)
        susp = NOS if rng.random() < 0.5 else tuple(rng.random() < 0.6 for _ in range(3))
        wbag = bag + (["cb_done"] * 6 if any(susp) else [])
        out.append((f"random{i}", ["start"] + [rng.choice(wbag) for _ in range(n)], rng.random() < 0.9, susp))
    return out


def pre(ck: Check):
    import translate

    translate.run()  # Props/C18 ties the model's constants to the generated ones (cool-down, max tries, backoff expression)
    from aioesphomeapi import reconnect_logic
    expr = translate.backoff_expr(reconnect_logic)
    ck.coverage["backoff_expression_from_source"] = expr
    if expr.startswith("unsupported:"):
        ck.assumptions.append("the retry-delay expression could not be extracted from the source by symbolic evaluation (" + expr +
                              "): the static tie c18_consts says nothing about it on this tree; the delays are tied by the correspondence "
                              "only (armed delay after 1..12 consecutive failures and after authentication errors vs the model)")


def run(ck: Check):
    rng, thorough = ck.rng, ck.tier == "thorough"
    scen = scenarios(rng, thorough)
    batches, metas = [], []
    dist = {"scenarios": len(scen), "ops": 0}
    seen = set()
    for name, ops, has_name, susp in scen:
        lines, obs, trace, errors = run_one(ops, has_name, susp)
        batches.append((lines, obs, name, ops, has_name))
        dist["suspending"] = dist.get("suspending", 0) + (1 if any(susp) else 0)
        dist["ops"] += len(trace)
        for ev, acts, snap in trace:
            for a in acts:
                dist[a.split(":")[0]] = dist.get(a.split(":")[0], 0) + 1
            f = dict(x.split("=") for x in snap.split())
            seen.add((f["st"], f["stopped"], f["cli"], f["locked"], f["waiters"], f["timer"] != "-", f["zc"]))
        for e in errors:
            dist["err:" + e] = dist.get("err:" + e, 0) + 1
        for key, i, what in Oracle(susp, has_name).judge(trace)[:3]:
            ck.violation(key, f"scenario {name} (ops {ops[:60]}, callbacks suspend {susp}), at op #{i}: {what}",
                         {"ops": ops, "has_name": has_name, "callbacks_suspend": list(susp), "at": i})
    # ---- backoff table, measured on the model for every n (the implementation's timers were judged by the oracle above)
    tbl = [f"rc.backoff {n}" for n in range(0, 130)]
    # ---- model vs implementation
    groups = [[] for _ in range(16)]
    for i, bt in enumerate(batches):
        groups[i % 16].append(bt)
    outs = run_driver_parallel([[l for bt in g for l in bt[0]] + tbl for g in groups])
    compared = 0
    ndis = 0
    for g, out in zip(groups, outs):
        if out is None:
            ck.disagreement("driver failed", {})
            continue
        pos = 0
        for lines, obs, name, ops, has_name in g:
            mo = out[pos:pos + len(lines)]
            pos += len(lines)
            for j, (l, m, o) in enumerate(zip(lines, mo, obs)):
                compared += 1
                m2 = m.replace("cli=starting", "cli=busy").replace("cli=finishing", "cli=busy")
                if m2 != o:
                    ndis += 1
                    if ndis <= 5:
                        ck.disagreement("reconnect model != implementation", {"scenario": name, "ops": ops, "at": j, "op": l, "model": m2, "impl": o})
                    break
        for n, v in zip(range(0, 130), out[pos:]):
            want = min(round(1.8 ** min(n, 10)), 60)
            if v != str(want):
                ck.disagreement("backoff table", {"n": n, "model": v, "python": want})
    ck.coverage.update({
        "evaluations": len(scen), "model_ops_compared": compared, "distinct_nontrivial": len(seen),
        "rule": "case = (op sequence over start / stop / socket ok|refused / hello+login ok|wrong password|reset / session reset|"
                "device disconnect / 5 kinds of mDNS record / timer due / wait / run ONE ready handle / settle, name known or not); "
                "distinct = (state, stopped, client phase, lock, waiters, timer armed, listening) combinations reached",
        "traces_validated_against_impl": len(scen),
        "samples": [{"scenario": scen[i][0], "ops": scen[i][1][:30], "callbacks_suspend": list(scen[i][3])} for i in (0, len(scen) // 2, len(scen) - 1)],
        "distribution": dist, "exhaustive": False,
    })
    ck.assumptions += [
        "a user callback that awaits something awaits ONE future the scenario resolves (cb_done); per scenario each of the three "
        "callbacks either always suspends or never does",
        "the attempt's own timeouts (resolve/connect/handshake, C05-C09) never fire: attempt outcomes are chosen by the scenario",
        "zeroconf instances created by the manager itself (closed in stop(), C20) are not driven; stop_callback() is driven as a second "
        "way of issuing stop()",
    ]
