"""C16 — Bluetooth operations are matched by address and handle and never cross-talk.

implementation : the real APIClient BLE entry points on a session established through the real connect path (SimNet,
                 virtual time); several operations in flight at once over an address x handle space {A,B} x {1,2}; the
                 device's responses (matching, foreign address, foreign handle, GATT errors, connection changes, unrelated
                 messages, nothing) fed in every order of a pool
model          : Esp.Ble via the Lean driver (`ble.outcome`, `ble.connect`): each operation's outcome from the messages fed
                 after it started
spec (on impl) : each operation ends with its own outcome only (the first message carrying its address [and handle]); after
                 every ending - result, GATT error, connection dropped, timeout, CANCELLATION - nothing is left subscribed,
                 no request timer armed; a device connect that times out writes DISCONNECT for that address before raising
"""
from __future__ import annotations

import itertools
from asyncio import tasks

from aioesphomeapi import api_pb2 as pb
from aioesphomeapi import core
from aioesphomeapi.connection import PROTO_TO_MESSAGE_TYPE

from common import Check, run_driver_parallel
import simnet

A, B = 0x112233445566, 0x665544332211


def mk_msg(tok: str):
    k, a, h = tok.split(":")
    a, h = int(a), int(h)
    if k == "read":
        return pb.BluetoothGATTReadResponse(address=a, handle=h, data=b"d%d" % h)
    if k == "write":
        return pb.BluetoothGATTWriteResponse(address=a, handle=h)
    if k == "notify":
        return pb.BluetoothGATTNotifyResponse(address=a, handle=h)
    if k == "error":
        return pb.BluetoothGATTErrorResponse(address=a, handle=h, error=133)
    if k in ("conn0", "conn1"):
        return pb.BluetoothDeviceConnectionResponse(address=a, connected=k == "conn1", mtu=23, error=0)
    if k == "pairing":
        return pb.BluetoothDevicePairingResponse(address=a, paired=True)
    if k == "unpairing":
        return pb.BluetoothDeviceUnpairingResponse(address=a, success=True)
    if k == "clearcache":
        return pb.BluetoothDeviceClearCacheResponse(address=a, success=True)
    if k == "other":
        return pb.BluetoothGATTNotifyDataResponse(address=a, handle=h, data=b"n")
    raise ValueError(tok)


_variant = [0]


def start_op(client, kind, a, h):
    # characteristic and descriptor entry points share the request machinery and the response types: rotated
    _variant[0] += 1
    if kind == "read":
        if _variant[0] % 2:
            return client.bluetooth_gatt_read_descriptor(a, h, timeout=10.0)
        return client.bluetooth_gatt_read(a, h, timeout=10.0)
    if kind == "write":
        if _variant[0] % 2:
            return client.bluetooth_gatt_write_descriptor(a, h, b"x", timeout=10.0, wait_for_response=True)
        return client.bluetooth_gatt_write(a, h, b"x", True, timeout=10.0)
    if kind == "notify":
        return client.bluetooth_gatt_start_notify(a, h, lambda hh, d: None, timeout=10.0)
    if kind == "pair":
        return client.bluetooth_device_pair(a, timeout=10.0)
    if kind == "unpair":
        return client.bluetooth_device_unpair(a, timeout=10.0)
    if kind == "clearcache":
        return client.bluetooth_device_clear_cache(a, timeout=10.0)
    if kind == "disconnect":
        return client.bluetooth_device_disconnect(a, timeout=10.0)
    raise ValueError(kind)


def classify_task(t, kind):
    if not t.done():
        return "pending"
    if t.cancelled():
        return "cancelled"
    e = t.exception()
    if e is None:
        return "result"
    if isinstance(e, core.BluetoothGATTAPIError):
        return "gatt"
    if isinstance(e, core.BluetoothConnectionDroppedError):
        return "dropped"
    if isinstance(e, core.TimeoutAPIError):
        return "timeout"
    return "raw:" + type(e).__name__


def leftovers(conn, loop, base):
    """handlers registered beyond the session's baseline, waiters, request timers"""
    extra = {k.__name__: len(v) - base.get(k, 0) for k, v in conn._message_handlers.items() if len(v) - base.get(k, 0) > 0}
    timers = sum(1 for _, lab in loop.armed_timers() if "handle_timeout" in lab)
    return extra, len(conn._read_exception_futures), timers


def run_scenario(ops, chunks, cancel_at=None):
    """ops: [(kind, a, h)], all started first (concurrently), then each chunk (a list of tokens) delivered as ONE socket
    read, i.e. dispatched back to back before any waiting task resumes.  cancel_at: (op index, chunk position) or None."""
    feed = chunks
    net, client, conn, _ = simnet.established(keepalive=100000.0)
    loop = net.loop
    base = {k: len(v) for k, v in conn._message_handlers.items()}
    ts = []
    for i, (kind, a, h) in enumerate(ops):
        ts.append(tasks._PyTask(start_op(client, kind, a, h), loop=loop, name=f"op{i}", eager_start=True))
    loop.run_idle()
    for pos, tok in enumerate(feed):
        if cancel_at is not None and cancel_at[1] == pos:
            ts[cancel_at[0]].cancel()
        net.send(*[mk_msg(x) for x in tok])
        loop.run_idle()
    if cancel_at is not None and cancel_at[1] >= len(feed):
        ts[cancel_at[0]].cancel()
        loop.run_idle()
    loop.advance(11.0)   # the operations that were not hit time out (10 s)
    res = [classify_task(t, ops[i][0]) for i, t in enumerate(ts)]
    # a finished notify start hands out closures that keep the data handler on purpose: release them
    for i, t in enumerate(ts):
        if ops[i][0] == "notify" and t.done() and not t.cancelled() and t.exception() is None:
            stop, remove = t.result()
            remove()
    left = leftovers(conn, loop, base)
    for t in ts:
        if t.done() and not t.cancelled():
            t.exception()
    net.close()
    return res, left


def chunked(rng, toks):
    """split a token list into socket reads: one message each / all in one / random"""
    mode = rng.randrange(3)
    if mode == 0 or len(toks) < 2:
        return [[t] for t in toks]
    if mode == 1:
        return [list(toks)]
    out, cur = [], []
    for t in toks:
        cur.append(t)
        if rng.random() < 0.5:
            out.append(cur); cur = []
    if cur:
        out.append(cur)
    return out


def hits(op, tok):
    """the property's matching rule, from its text"""
    kind, a, h = op
    k, ma, mh = tok.split(":")
    ma, mh = int(ma), int(mh)
    if kind in ("read", "write", "notify"):
        if k in ("conn0", "conn1"):
            return ma == a
        return k in (kind, "error") and ma == a and mh == h
    if kind == "disconnect":
        return k == "conn0" and ma == a
    want = {"pair": "pairing", "unpair": "unpairing", "clearcache": "clearcache"}[kind]
    return k in (want, "conn0", "conn1") and ma == a


def expected(op, feed):
    for tok in feed:
        if hits(op, tok):
            k = tok.split(":")[0]
            if k == "error":
                return "gatt"
            if k in ("conn0", "conn1"):
                return "result" if op[0] == "disconnect" else "dropped"
            return "result"
    return "timeout"


def run(ck: Check):
    rng, thorough = ck.rng, ck.tier == "thorough"
    OPK = ["read", "write", "notify", "pair", "unpair", "clearcache", "disconnect"]
    pool_all = [f"{k}:{a}:{h}" for k in ("read", "write", "notify", "error") for a in (A, B) for h in (1, 2)] + \
               [f"{k}:{a}:0" for k in ("conn0", "conn1", "pairing", "unpairing", "clearcache") for a in (A, B)] + \
               [f"other:{A}:1"] + [f"{k}:{a}:{h}" for k in ("error", "read", "write", "notify") for a in (A, B) for h in (0, 3)]   # foreign handles incl. 0
    scen = []
    # every pair of operations on the small space x permutations of a response pool of size 3
    opspace = [(k, a, h) for k in ("read", "write", "notify") for a in (A, B) for h in (1, 2)] + \
              [(k, a, 0) for k in ("pair", "unpair", "clearcache", "disconnect") for a in (A, B)]
    pairs = list(itertools.combinations(opspace, 2))
    rng.shuffle(pairs)
    for ops in pairs[: (len(pairs) if thorough else 60)]:
        rel = [t for t in pool_all if any(hits(o, t) for o in ops)]
        for _ in range(6 if thorough else 3):
            pool = rng.sample(rel, min(2, len(rel))) + rng.sample(pool_all, 2)
            for perm in itertools.permutations(pool, len(pool)) if thorough else [rng.sample(pool, len(pool)) for _ in range(3)]:
                scen.append((list(ops), chunked(rng, list(perm)), None))
    # triples / same operation twice / cancellation as an ending
    for _ in range(1500 if thorough else 250):
        n = rng.choice([1, 2, 3, 3])
        ops = [rng.choice(opspace) for _ in range(n)]
        feed = chunked(rng, [rng.choice(pool_all) for _ in range(rng.randrange(0, 5))])
        cancel = (rng.randrange(n), rng.randrange(0, len(feed) + 1)) if rng.random() < 0.35 else None
        scen.append((ops, feed, cancel))
    # the same operation answered twice / answered and dropped in ONE read
    for op in opspace:
        rel = [t for t in pool_all if hits(op, t)]
        for a_, b_ in itertools.product(rel, rel):
            scen.append(([op], [[a_, b_]], None))
            if thorough:
                scen.append(([op, op], [[a_, b_]], None))
    lines, impl, metas = [], [], []
    dist = {"scenarios": len(scen), "ops": 0, "result": 0, "gatt": 0, "dropped": 0, "timeout": 0, "cancelled": 0}
    nv = 0
    for ops, chunks, cancel in scen:
        res, left = run_scenario(ops, chunks, cancel)
        feed = [t for c in chunks for t in c]
        dist["reads_with_several_messages"] = dist.get("reads_with_several_messages", 0) + sum(1 for c in chunks if len(c) > 1)
        for i, op in enumerate(ops):
            dist["ops"] += 1
            dist[res[i]] = dist.get(res[i], 0) + 1
            if cancel is not None and cancel[0] == i:
                # the messages the operation saw before it was cancelled decide; if none hit, it ends cancelled
                seen = [t for c in chunks[: cancel[1]] for t in c]
                want = expected(op, seen) if expected(op, seen) != "timeout" else "cancelled"
                lines.append(None)
            else:
                want = expected(op, feed)
                lines.append(f"ble.outcome {op[0]} {op[1]} {op[2]} " + " ".join(feed))
            impl.append(res[i])
            metas.append((ops, feed, cancel, i))
            if res[i] != want and nv < 8:
                nv += 1
                ck.violation(f"c16:outcome:{op[0]}:{want}->{res[i]}",
                             f"operation {op} among {ops} with device messages {feed} (cancel {cancel}) ended {res[i]}, "
                             f"its own sub-stream prescribes {want}", {"ops": ops, "feed": chunks, "cancel": cancel})
        extra, waiters, timers = left
        if (extra or waiters or timers) and nv < 12:
            nv += 1
            ck.violation("c16:leak:" + (sorted(extra)[0] if extra else "waiter-or-timer"),
                         f"after all operations {ops} ended (messages {feed}, cancel {cancel}): handlers left {extra}, "
                         f"waiters {waiters}, request timers {timers}", {"ops": ops, "feed": chunks, "cancel": cancel})
    # device connect: the call for `addr` resolves on ANY connection response for that address, times out otherwise;
    # a timeout unsubscribes, writes DISCONNECT for the address, waits (bounded) for connected=False, then raises
    conn_lines, conn_impl = [], []
    toks = ["resp:A:1", "resp:A:0", "resp:B:1", "resp:B:0", "timeout", "disctimeout"]
    seqs = [list(x) for n in range(0, 5) for x in itertools.product(toks, repeat=n)
            if x.count("timeout") <= 1 and ("disctimeout" not in x or ("timeout" in x and x.index("timeout") < x.index("disctimeout")))
            and x.count("disctimeout") <= 1]
    if not thorough:
        seqs = seqs[:40] + rng.sample(seqs[40:], 260)
    for evs in seqs:
        for concurrent in ((False, True) if thorough or rng.random() < 0.5 else (False,)):
            net, client, conn, _ = simnet.established(keepalive=100000.0)
            loop = net.loop
            base = {k: len(v) for k, v in conn._message_handlers.items()}
            n0 = len(net.written())
            cbs = {A: 0, B: 0}
            ops_ = [(A, 30.0)] + ([(B, 100000.0)] if concurrent else [])   # the second call never times out by itself
            ts_ = []
            for addr, to in ops_:
                def cb(connected, mtu, error, addr=addr):
                    cbs[addr] += 1
                # the connect flavours (with / without the device's cache, with an address type) share everything the
                # property speaks about: rotated
                _variant[0] += 1
                kw = [{}, {"has_cache": True}, {"feature_flags": 1 << 3}, {"address_type": 1}, {"has_cache": True, "address_type": 0},
                      {"feature_flags": 0x7F}][_variant[0] % 6]
                ts_.append(tasks._PyTask(client.bluetooth_device_connect(addr, cb, timeout=to, disconnect_timeout=20.0, **kw),
                                         loop=loop, name=f"bconn{addr}", eager_start=True))
            loop.run_idle()
            for e in evs:
                k = e.split(":")
                if k[0] == "timeout":
                    loop.advance(30.0)
                elif k[0] == "disctimeout":
                    loop.advance(20.0)
                else:
                    net.send(pb.BluetoothDeviceConnectionResponse(address=A if k[1] == "A" else B, connected=k[2] == "1", mtu=23))
                loop.run_idle()
            reqs = []
            for _, ty, p_ in net.written()[n0:]:
                if ty == PROTO_TO_MESSAGE_TYPE[pb.BluetoothDeviceRequest]:
                    r = pb.BluetoothDeviceRequest(); r.ParseFromString(p_)
                    reqs.append((r.address, r.request_type))
            for (addr, to), t in zip(ops_, ts_):
                mine = [e for e in evs if not (addr == B and e in ("timeout", "disctimeout"))]
                # ---- oracle from the property text
                phase, want, want_cb, sub = "connecting", [], 0, True
                me = "A" if addr == A else "B"
                for e in mine:
                    k = e.split(":")
                    if k[0] == "resp":
                        if k[1] == me and sub:
                            want_cb += 1
                        if phase == "connecting" and k[1] == me:
                            phase, want = "ok", ["ok"]
                        elif phase == "disconnecting" and k[1] == me and k[2] == "0":
                            phase = "failed"; want.append("raise-timeout")
                    elif k[0] == "timeout" and phase == "connecting":
                        phase, sub = "disconnecting", False
                        want += ["unsub", f"disconnect:{addr}"]
                    elif k[0] == "disctimeout" and phase == "disconnecting":
                        phase = "failed"; want.append("raise-timeout")
                outcome = classify_task(t, "connect")
                out = []
                if any(rt == 1 and a_ == addr for a_, rt in reqs):   # DISCONNECT
                    out += ["unsub", f"disconnect:{addr}"]
                if outcome == "timeout":
                    out.append("raise-timeout")
                elif outcome == "result":
                    out = ["ok"] if not out else out + ["ok"]
                if out != want:
                    ck.violation(f"c16:connect:{' '.join(want) or 'pending'}->{' '.join(out) or 'pending'}",
                                 f"bluetooth_device_connect({me}) with device events {evs} ({'next to a pending connect for B' if concurrent else 'alone'}) "
                                 f"did [{' '.join(out)}], its own events prescribe [{' '.join(want)}]", {"events": evs, "concurrent": concurrent})
                if cbs[addr] != want_cb:
                    ck.violation("c16:connect-callback-count", f"bluetooth_device_connect({me}) events {evs}: the connection-state callback "
                                 f"ran {cbs[addr]} times, {want_cb} responses for its address arrived while subscribed",
                                 {"events": evs, "concurrent": concurrent})
                conn_lines.append(f"ble.connect {addr} " + " ".join(
                    e.replace(":A:", f":{A}:").replace(":B:", f":{B}:") for e in mine))
                conn_impl.append(" ".join(out))
            for t in ts_:
                if t.done() and not t.cancelled() and t.exception() is None:
                    t.result()()   # the unsubscribe handle returned to the caller
                elif not t.done():
                    t.cancel()
            loop.run_idle()
            extra, waiters, timers = leftovers(conn, loop, base)
            if extra or waiters or timers:
                ck.violation("c16:connect-leak", f"bluetooth_device_connect events {evs} (concurrent={concurrent}): after every call ended "
                             f"or was cancelled and the returned handles were released: handlers left {extra}, waiters {waiters}, timers {timers}",
                             {"events": evs, "concurrent": concurrent})
            for t in ts_:
                if t.done() and not t.cancelled():
                    t.exception()
            net.close()
    dist["connect_scenarios"] = len(conn_lines)
    # notify data: after a started notify session for (a, h), the data callback gets exactly the data of the notify-data
    # messages for (a, h), until stop_notify() / remove_callback()
    n_notify = 0
    for case in range(60 if thorough else 16):
        net, client, conn, _ = simnet.established(keepalive=100000.0)
        loop = net.loop
        base = {k: len(v) for k, v in conn._message_handlers.items()}
        a, h = rng.choice([A, B]), rng.choice([1, 2])
        got = []
        t = tasks._PyTask(client.bluetooth_gatt_start_notify(a, h, lambda hh, d: got.append(int(bytes(d)))), loop=loop, eager_start=True)
        loop.run_idle()
        net.send(pb.BluetoothGATTNotifyResponse(address=a, handle=h))
        loop.run_idle()
        stop, remove = t.result()
        evs, removed = [], False
        for i in range(rng.randrange(3, 10)):
            if not removed and rng.random() < 0.15:
                if rng.random() < 0.5:
                    remove()
                else:
                    tasks._PyTask(stop(), loop=loop, eager_start=True)
                    loop.run_idle()
                removed = True
                evs.append("rm")
                continue
            ma, mh = rng.choice([A, B]), rng.choice([1, 2])
            net.send(pb.BluetoothGATTNotifyDataResponse(address=ma, handle=mh, data=str(i).encode()))
            loop.run_idle()
            evs.append(f"d:{ma}:{mh}:{i}")
        want, reg = [], True
        for e in evs:
            if e == "rm":
                reg = False
            else:
                _, ma, mh, i = e.split(":")
                if reg and int(ma) == a and int(mh) == h:
                    want.append(int(i))
        if got != want:
            ck.violation("c16:notify-data", f"notify session for ({a}, {h}), events {evs}: data callback got {got}, the messages for its "
                         f"address and handle while registered are {want}", {"address": a, "handle": h, "events": evs})
        if not removed:
            remove()
        extra, waiters, timers = leftovers(conn, loop, base)
        if extra or waiters or timers:
            ck.violation("c16:notify-leak", f"notify session for ({a}, {h}) released, events {evs}: handlers left {extra}", {"events": evs})
        conn_lines.append(f"ble.notify {a} {h} " + " ".join(evs))
        conn_impl.append(" ".join(str(x) for x in got))
        n_notify += 1
        net.close()
    dist["notify_sessions"] = n_notify
    # service discovery (a collecting request): one or two concurrent discoveries, optionally next to a GATT read on the same
    # address; random streams of services / done / error / connection-change / unrelated messages for both addresses
    from aioesphomeapi.core import BluetoothConnectionDroppedError, BluetoothGATTAPIError, TimeoutAPIError
    n_disc = 0
    for case in range(400 if thorough else 80):
        net, client, conn, _ = simnet.established(keepalive=100000.0)
        loop = net.loop
        base = {k: len(v) for k, v in conn._message_handlers.items()}
        addrs = [A, B] if rng.random() < 0.6 else [rng.choice([A, B])]
        ts = {a: tasks._PyTask(client.bluetooth_gatt_get_services(a), loop=loop, eager_start=True) for a in addrs}
        side = None
        if rng.random() < 0.4:
            side = tasks._PyTask(client.bluetooth_gatt_read(addrs[0], 1), loop=loop, eager_start=True)
        loop.run_idle()
        toks = []
        for i in range(rng.randrange(1, 9)):
            a = rng.choice([A, B])
            r = rng.random()
            if r < 0.45:
                ids = [rng.randrange(1, 200) for _ in range(rng.randrange(0, 3))]
                net.send(pb.BluetoothGATTGetServicesResponse(address=a, services=[pb.BluetoothGATTService(uuid=[1, 2], handle=x) for x in ids]))
                toks.append(f"s:{a}:" + (",".join(map(str, ids)) or "-"))
            elif r < 0.65:
                net.send(pb.BluetoothGATTGetServicesDoneResponse(address=a))
                toks.append(f"done:{a}")
            elif r < 0.75:
                net.send(pb.BluetoothGATTErrorResponse(address=a, handle=rng.choice([1, 2, 77]), error=3))
                toks.append(f"err:{a}")
            elif r < 0.85:
                net.send(pb.BluetoothDeviceConnectionResponse(address=a, connected=rng.random() < 0.5, mtu=23))
                toks.append(f"conn:{a}")
            else:
                net.send(pb.BluetoothGATTWriteResponse(address=a, handle=1))
                toks.append(f"x:{a}")
            # sometimes several messages arrive in one read
            if rng.random() < 0.6:
                loop.run_idle()
        loop.run_idle()
        loop.advance(31.0)
        loop.run_idle()
        for a, t in ts.items():
            if not t.done():
                got = "hang"
            elif t.cancelled():
                got = "cancelled"
            else:
                e = t.exception()
                if e is None:
                    r_ = t.result()
                    got = "services " + ",".join(str(x.handle) for x in r_.services)
                    if r_.address != a:
                        got += f" address={r_.address}"
                else:
                    got = {BluetoothGATTAPIError: "gatt-error", BluetoothConnectionDroppedError: "dropped", TimeoutAPIError: "timeout"}.get(type(e), "raw:" + type(e).__name__)
            # the rule of the text on the messages of its own address
            want, acc = "timeout", []
            for tk in toks:
                kind, ma, *rest = tk.split(":")
                if int(ma) != a:
                    continue
                if kind == "s":
                    acc += [] if rest[0] == "-" else rest[0].split(",")
                elif kind == "done":
                    want = "services " + ",".join(acc)
                    break
                elif kind == "err":
                    want = "gatt-error"
                    break
                elif kind == "conn":
                    want = "dropped"
                    break
            if got != want:
                ck.violation("c16:get-services", f"service discovery for {a} with messages {toks}: ended as [{got}], its own messages prescribe "
                             f"[{want}]", {"address": a, "messages": toks, "concurrent": [x for x in addrs if x != a], "gatt_read_alongside": side is not None})
            conn_lines.append(f"ble.services {a} " + " ".join(toks))
            conn_impl.append(got)
            dist.setdefault("discovery_outcomes", {}).setdefault(got.split(" ")[0], 0)
            dist["discovery_outcomes"][got.split(" ")[0]] += 1
            n_disc += 1
        if side is not None and side.done() and not side.cancelled():
            side.exception()
        extra, waiters, timers = leftovers(conn, loop, base)
        if extra or waiters or timers:
            ck.violation("c16:get-services-leak", f"after service discovery ended (messages {toks}): handlers left {extra}, waiters {waiters}, "
                         f"timers {timers}", {"messages": toks})
        net.close()
    dist["service_discoveries"] = n_disc
    # writes that do not wait for a response (characteristic with response=False, descriptor with wait_for_response=False): the
    # call returns at once having written exactly one request for its address and handle, subscribes to nothing, and no later
    # message (its own response, an error, a connection change) has anything to complete or fail
    n_nowait = 0
    for a, h in itertools.product((A, B), (1, 2)):
        for flavour in ("char", "desc"):
            net, client, conn, _ = simnet.established(keepalive=100000.0)
            loop = net.loop
            base = {k: len(v) for k, v in conn._message_handlers.items()}
            before = len(net.written())
            coro = (client.bluetooth_gatt_write(a, h, b"xyz", False) if flavour == "char"
                    else client.bluetooth_gatt_write_descriptor(a, h, b"xyz", wait_for_response=False))
            t = tasks._PyTask(coro, loop=loop, eager_start=True)
            done_at_once = t.done()
            loop.run_idle()
            wr = [(ty, p) for _, ty, p in net.written()[before:]]
            extra, waiters, timers = leftovers(conn, loop, base)
            ok = done_at_once and not t.cancelled() and t.exception() is None and len(wr) == 1 and not extra and not waiters and not timers
            if ok:
                want_cls = pb.BluetoothGATTWriteRequest if flavour == "char" else pb.BluetoothGATTWriteDescriptorRequest
                m = want_cls()
                m.ParseFromString(wr[0][1])
                ok = wr[0][0] == simnet.PROTO_TO_ID[want_cls] and m.address == a and m.handle == h and bytes(m.data) == b"xyz" and \
                    (flavour == "desc" or m.response is False)
            for msg in (pb.BluetoothGATTWriteResponse(address=a, handle=h), pb.BluetoothGATTErrorResponse(address=a, handle=h, error=1),
                        pb.BluetoothDeviceConnectionResponse(address=a, connected=False)):
                net.send(msg)
                loop.run_idle()
            if not ok or conn.connection_state is not simnet.ac.CONNECTION_STATE_CONNECTED:
                ck.violation(f"c16:write-no-response:{flavour}", f"GATT {flavour} write to ({a}, {h}) without waiting for a response: returned at once="
                             f"{done_at_once}, requests written {[(ty, len(p)) for ty, p in wr]}, handlers left {extra}, waiters {waiters}, timers {timers}",
                             {"address": a, "handle": h, "flavour": flavour})
            n_nowait += 1
            net.close()
    dist["writes_without_response"] = n_nowait
    # ---- model vs implementation
    live_lines = [l for l in lines if l is not None] + conn_lines
    live_impl = [o for l, o in zip(lines, impl) if l is not None] + conn_impl
    outs = run_driver_parallel([live_lines[i::16] for i in range(16)])
    compared = 0
    for i in range(16):
        if outs[i] is None:
            ck.disagreement("driver failed", {})
            continue
        for l, m, o in zip(live_lines[i::16], outs[i], live_impl[i::16]):
            compared += 1
            mm = m.split(":")[0] if l.startswith("ble.outcome") else m
            if mm != o:
                ck.disagreement("bluetooth model != implementation", {"op": l[:300], "model": m, "impl": o})
    ck.coverage.update({
        "evaluations": len(scen) + len(conn_lines), "model_ops_compared": compared,
        "distinct_nontrivial": len({(str(o), str(f), str(c)) for o, f, c in scen}),
        "rule": "case = (1-3 concurrent operations over {A,B} x {1,2}: read / write / notify start / pair / unpair / clear cache / "
                "disconnect, ordered list of device messages from a pool with matching, foreign-address, foreign-handle, error, "
                "connection-change and unrelated messages, optional cancellation of one operation at any position)",
        "traces_validated_against_impl": len(scen),
        "samples": [{"ops": scen[i][0], "feed": scen[i][1], "cancel": scen[i][2]} for i in (0, len(scen) // 2, len(scen) - 1)],
        "distribution": dist, "exhaustive": False,
    })
    ck.assumptions += ["writes that do not wait for a response are judged by the oracle only (they involve no device message)"]
