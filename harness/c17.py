"""C17 — one converted callback per subscribed message; camera images reassemble per key; voice assistant.

implementation : the real APIClient subscribe_* entry points on a live session (live.make_client); device messages fed
                 through the connection's process_packet
model          : Esp.Subs via the Lean driver (`sb.run`, `va.run`)
spec (on impl) : state streams: exactly one callback per state message, carrying the model class paired with the message
                 type and the message's key, in order; cameras: all interleavings of several cameras' chunk streams — every
                 completed image equals the concatenation of that key's chunks since its previous completion; the other
                 subscriptions: matching handler once per message; unsubscribe stops deliveries at once; voice assistant:
                 start -> one response (port | error | nothing if cancelled), stop/audio/announce -> matching handler
"""
from __future__ import annotations

import asyncio
import itertools

from aioesphomeapi import api_pb2 as pb
from aioesphomeapi import model as M
from aioesphomeapi.model_conversions import SUBSCRIBE_STATES_RESPONSE_TYPES
from aioesphomeapi.connection import PROTO_TO_MESSAGE_TYPE

from common import Check, run_driver_parallel
import live


def interleavings(seqs):
    """all merges of the given sequences preserving each one's order"""
    seqs = [s for s in seqs if s]
    if not seqs:
        yield []
        return
    for i, s in enumerate(seqs):
        rest = seqs[:i] + [s[1:]] + seqs[i + 1:]
        for tail in interleavings(rest):
            yield [s[0]] + tail


def state_run(msgs):
    """msgs: ("s", cls, key) | ("c", key, data, done); returns outputs as tokens"""
    client, conn, tr, loop = live.make_client()
    out = []

    def on_state(st):
        if isinstance(st, M.CameraState):
            out.append(f"i:{st.key}:{bytes(st.data).hex() or '-'}")
        else:
            # the wire type the model class is paired with, looked up from the class the callback received
            wire = next((w for w, c in SUBSCRIBE_STATES_RESPONSE_TYPES.items() if c is type(st)), None)
            out.append(f"m:{PROTO_TO_MESSAGE_TYPE[wire] if wire else '?' + type(st).__name__}:{st.key}")

    client.subscribe_states(on_state)
    for m in msgs:
        if m[0] == "s":
            live.feed_message(conn, m[1](key=m[2]))
        else:
            live.feed_message(conn, pb.CameraImageResponse(key=m[1], data=m[2], done=m[3]))
    return out


def _collector(out):
    def on_state(st):
        if isinstance(st, M.CameraState):
            out.append(f"i:{st.key}:{bytes(st.data).hex() or '-'}")
        else:
            wire = next((w for w, c in SUBSCRIBE_STATES_RESPONSE_TYPES.items() if c is type(st)), None)
            out.append(f"m:{PROTO_TO_MESSAGE_TYPE[wire] if wire else '?' + type(st).__name__}:{st.key}")
    return on_state


def _feed(conn, m):
    if m[0] == "s":
        live.feed_message(conn, m[1](key=m[2]))
    else:
        live.feed_message(conn, pb.CameraImageResponse(key=m[1], data=m[2], done=m[3]))


def two_subs_run(msgs, at):
    """two subscribe_states() on ONE client and connection: the first before the stream, the second after `at` messages"""
    client, conn, tr, loop = live.make_client()
    a, b = [], []
    client.subscribe_states(_collector(a))
    for i, m in enumerate(msgs):
        if i == at:
            client.subscribe_states(_collector(b))
        _feed(conn, m)
    if at >= len(msgs):
        client.subscribe_states(_collector(b))
    return a, b


def resession_run(msgs1, msgs2):
    """the SAME client over two sessions: subscribe + stream, the session dies (possibly mid-image), a new session,
    subscribe + stream again"""
    client, conn, tr, loop = live.make_client()
    a, b = [], []
    client.subscribe_states(_collector(a))
    for m in msgs1:
        _feed(conn, m)
    conn.force_disconnect()
    live.attach_session(client)
    client.subscribe_states(_collector(b))
    for m in msgs2:
        _feed(client._connection, m)
    return a, b


def expected_images(msgs):
    """from the property text: per key, concatenation of that key's chunks since its previous completion"""
    acc, out = {}, []
    for m in msgs:
        if m[0] == "s":
            out.append(f"m:{PROTO_TO_MESSAGE_TYPE[m[1]]}:{m[2]}")
        else:
            acc.setdefault(m[1], []).append(m[2])
            if m[3]:
                out.append(f"i:{m[1]}:{b''.join(acc.pop(m[1])).hex() or '-'}")
    return out


def va_run(events, with_audio, with_ann):
    import simnet

    net, client, conn, _stops = simnet.established(keepalive=100000.0)
    loop, tr = net.loop, net.tr
    out, futs = [], {}
    n = [0]

    async def handle_start(conv, flags, audio, wake):
        i = n[0]
        n[0] += 1
        out.append(f"hstart:{i}")
        f = loop.create_future()
        futs[i] = f
        return await f

    async def handle_stop(aborted):
        out.append(f"hstop:{1 if aborted else 0}")

    async def handle_audio(data):
        out.append("haudio")

    async def handle_ann(fin):
        out.append("hann")

    w0 = len(tr.writes)
    unsub = client.subscribe_voice_assistant(handle_start=handle_start, handle_stop=handle_stop,
                                             handle_audio=handle_audio if with_audio else None,
                                             handle_announcement_finished=handle_ann if with_ann else None)
    seen_w = len(tr.writes)

    def drain_writes():
        nonlocal seen_w
        for _t, w in tr.writes[seen_w:]:
            for t, payload in live.decode_plain(w):
                if t == PROTO_TO_MESSAGE_TYPE[pb.VoiceAssistantResponse]:
                    r = pb.VoiceAssistantResponse()
                    r.ParseFromString(payload)
                    out.append("error" if r.error else f"port:{r.port}")
        seen_w = len(tr.writes)

    for e in events:
        k = e.split(":")
        if k[0] == "start":
            net.send(pb.VoiceAssistantRequest(start=True, conversation_id="c"))
        elif k[0] == "stop":
            net.send(pb.VoiceAssistantRequest(start=False))
        elif k[0] == "audio":
            net.send(pb.VoiceAssistantAudio(data=b"x", end=k[1] == "1"))
        elif k[0] == "ann":
            net.send(pb.VoiceAssistantAnnounceFinished(success=True))
        elif k[0] == "done":
            f = futs.get(int(k[1]))
            if f is not None and not f.done():
                f.set_result(None if k[2] == "none" else int(k[2]))
        elif k[0] == "unsub":
            unsub()
        elif k[0] == "gone":
            if client._connection is not None:
                conn.force_disconnect()   # the session ends: on_stop detaches the connection, nothing is delivered any more
        loop.run_idle()
        drain_writes()
    for t in asyncio.all_tasks(loop):
        t.cancel()
    loop.run_idle()
    net.close()
    return out


def va_unsub_between_sessions(ck):
    """"an unsubscribe function stops deliveries at once" - also when it is called after the session has ended: a start
    handler still running is cancelled, so nothing of it can reach the NEXT session of the same client"""
    import simnet
    n = 0
    for result in (6055, None):
        for unsub_when in ("after-session-end", "before-session-end"):
            net, client, conn, _stops = simnet.established(keepalive=100000.0)
            loop = net.loop
            futs = []

            async def handle_start(conv, flags, audio, wake, futs=futs, loop=loop):
                f = loop.create_future()
                futs.append(f)
                return await f

            async def handle_stop(aborted):
                pass

            unsub = client.subscribe_voice_assistant(handle_start=handle_start, handle_stop=handle_stop)
            net.send(pb.VoiceAssistantRequest(start=True, conversation_id="c"))
            loop.run_idle()
            if unsub_when == "before-session-end":
                unsub()
                loop.run_idle()
            conn.force_disconnect()
            loop.run_idle()
            if unsub_when == "after-session-end":
                unsub()
                loop.run_idle()
            o = simnet.spawn(loop, client.connect(login=False), "connect2")
            loop.run_idle()
            net.send(simnet.hello_response())
            loop.run_idle()
            tr2 = net.tr
            before = len(tr2.writes)
            for f in futs:
                if not f.done():
                    f.set_result(result)
            for _ in range(4):
                loop.run_idle()
            stray = [t for _t, w in tr2.writes[before:] for t, _ in live.decode_plain(w) if t == PROTO_TO_MESSAGE_TYPE[pb.VoiceAssistantResponse]]
            n += 1
            if stray or not futs or o.cls() != "ok":
                ck.violation(f"c17:voice-unsub-between-sessions:{unsub_when}", f"voice-assistant start handler running ({len(futs)}), unsubscribe "
                             f"{unsub_when.replace('-', ' ')}, a new session of the same client (connect: {o.cls()}), then the handler returns {result}: "
                             f"{len(stray)} VoiceAssistantResponse written into the new session, which never saw a request",
                             {"unsub": unsub_when, "handler_result": result})
            for t in asyncio.all_tasks(loop):
                t.cancel()
            loop.run_idle()
            net.close()
    return n


def va_expected(events, aud, ann):
    """the property's voice-assistant clauses, written from its text: each message -> the matching handler once while
    subscribed; a start is answered once with the port its handler returned (error if none, nothing if cancelled by
    unsubscribe or if the session is gone); unsubscribe stops deliveries at once"""
    out, tasks, sub, alive = [], {}, True, True
    last = None
    for e in events:
        k = e.split(":")
        if k[0] == "gone":
            alive = False
        elif k[0] == "unsub":
            if alive:
                sub = False
            if last is not None and tasks.get(last) == "running":
                tasks[last] = "cancelled"
        elif k[0] == "done":
            i = int(k[1])
            if tasks.get(i) == "running":
                tasks[i] = "done"
                if alive:
                    out.append("error" if k[2] == "none" else f"port:{k[2]}")
        elif sub and alive:
            if k[0] == "start":
                i = len(tasks)
                tasks[i] = "running"
                last = i
                out.append(f"hstart:{i}")
            elif k[0] == "stop":
                out.append("hstop:1")
            elif k[0] == "audio" and aud:
                out.append("hstop:0" if k[1] == "1" else "haudio")
            elif k[0] == "ann" and ann:
                out.append("hann")
    return out


def run(ck: Check):
    rng, thorough = ck.rng, ck.tier == "thorough"
    lines, impl, kinds = [], [], []
    state_types = list(SUBSCRIBE_STATES_RESPONSE_TYPES.keys())
    n_viol = 0
    dist = {"state_streams": 0, "camera_interleavings": 0, "voice_sequences": 0, "state_types": len(state_types)}

    def add_state_case(msgs):
        nonlocal n_viol
        got = state_run(msgs)
        toks = []
        for m in msgs:
            toks.append(f"s:{PROTO_TO_MESSAGE_TYPE[m[1]]}:{m[2]}" if m[0] == "s" else f"c:{m[1]}:{m[2].hex() or '-'}:{1 if m[3] else 0}")
        lines.append("sb.run " + " ".join(toks))
        impl.append(" ".join(got))
        kinds.append("state")
        want = expected_images(msgs)
        if got != want and n_viol < 5:
            n_viol += 1
            ck.violation("c17:state-callbacks", f"subscribe_states delivered {got[:12]} but the stream prescribes {want[:12]}",
                         {"messages": toks})

    # 1. every state type, mixed streams
    for _ in range(300 if thorough else 40):
        msgs = [("s", rng.choice(state_types), rng.randrange(1, 50)) for _ in range(rng.randrange(1, 25))]
        add_state_case(msgs)
        dist["state_streams"] += 1
    add_state_case([("s", t, i + 1) for i, t in enumerate(state_types)])
    # 2. cameras: ALL interleavings of 2-3 cameras x 2-4 chunks (<= 1680 per shape) + state messages sprinkled in
    shapes = [(2, 2), (3, 2), (3, 3), (2, 2, 2), (4, 2), (3, 2, 2)] if thorough else [(2, 2), (3, 2), (2, 2, 2), (3, 3)]
    for shape in shapes:
        seqs = []
        for ci, n in enumerate(shape):
            key = 10 + ci
            chunks = []
            for j in range(n):
                # two images per camera when it has >= 3 chunks: done in the middle and at the end
                done = (j == n - 1) or (n >= 3 and j == 0)
                chunks.append(("c", key, bytes([ci * 16 + j + 1]) * (j + 1), done))
            seqs.append(chunks)
        allil = list(interleavings(seqs))
        if len(allil) > 1700:
            rng.shuffle(allil)
            allil = allil[:1700]
        for il in allil:
            if rng.random() < 0.3:
                il = il[:]
                il.insert(rng.randrange(len(il) + 1), ("s", rng.choice(state_types), 99))
            add_state_case(il)
            dist["camera_interleavings"] += 1
    for _ in range(400 if thorough else 60):
        msgs = []
        for _k in range(rng.randrange(5, 40)):
            if rng.random() < 0.7:
                msgs.append(("c", rng.choice([1, 2, 3, 2**32 - 1]), bytes(rng.randrange(256) for _ in range(rng.randrange(0, 5))), rng.random() < 0.35))
            else:
                msgs.append(("s", rng.choice(state_types), rng.randrange(1, 9)))
        add_state_case(msgs)
    # 2b. subscription points: a second subscriber joining anywhere in the stream, and the same client subscribing again in
    # a new session after the old one died mid-image - every subscription reassembles the chunks IT has received
    def toks_of(msgs):
        return [f"s:{PROTO_TO_MESSAGE_TYPE[m[1]]}:{m[2]}" if m[0] == "s" else f"c:{m[1]}:{m[2].hex() or '-'}:{1 if m[3] else 0}" for m in msgs]

    def judge_sub(what, got, msgs, rep):
        nonlocal n_viol
        lines.append("sb.run " + " ".join(toks_of(msgs)))
        impl.append(" ".join(got))
        kinds.append("state")
        want = expected_images(msgs)
        if got != want and n_viol < 5:
            n_viol += 1
            ck.violation("c17:" + what, f"{what}: the subscription was delivered {got[:12]} but the messages it received prescribe {want[:12]}", rep)

    def cam_stream(n):
        return [("c", rng.choice([1, 2, 3]), bytes([rng.randrange(1, 256)]) * rng.randrange(1, 4), rng.random() < 0.4) if rng.random() < 0.8
                else ("s", rng.choice(state_types), rng.randrange(1, 9)) for _ in range(n)]

    for _ in range(300 if thorough else 60):
        msgs = cam_stream(rng.randrange(4, 16))
        at = rng.randrange(0, len(msgs) + 1)
        a, b = two_subs_run(msgs, at)
        rep = {"messages": toks_of(msgs), "second_subscription_after": at}
        judge_sub("two-subscribers:first", a, msgs, rep)
        judge_sub("two-subscribers:second", b, msgs[at:], rep)
        dist["two_subscribers"] = dist.get("two_subscribers", 0) + 1
    for _ in range(300 if thorough else 60):
        m1, m2 = cam_stream(rng.randrange(1, 10)), cam_stream(rng.randrange(2, 10))
        a, b = resession_run(m1, m2)
        rep = {"session1": toks_of(m1), "session2": toks_of(m2)}
        judge_sub("resubscribe:first-session", a, m1, rep)
        judge_sub("resubscribe:second-session", b, m2, rep)
        dist["resubscribe_sessions"] = dist.get("resubscribe_sessions", 0) + 1
    # 3. voice assistant sequences
    EV = ["start", "stop", "audio:0", "audio:1", "ann", "unsub", "done:0:6055", "done:0:none", "done:1:7000", "done:1:none", "gone"]
    seqs = [list(p) for n in (1, 2, 3) for p in itertools.product(EV[:8], repeat=n)] if thorough else \
        [list(p) for n in (1, 2) for p in itertools.product(EV[:8], repeat=n)]
    for _ in range(1500 if thorough else 300):
        seqs.append([rng.choice(EV) for _ in range(rng.randrange(3, 9))])
    for evs in seqs:
        for aud, ann in ((1, 1), (0, 1), (1, 0)) if len(evs) > 2 else ((1, 1),):
            got = va_run(evs, bool(aud), bool(ann))
            want = va_expected(evs, bool(aud), bool(ann))
            if got != want and n_viol < 8:
                n_viol += 1
                ck.violation("c17:voice-assistant", f"voice-assistant events {evs} (audio handler {bool(aud)}, announcement "
                             f"handler {bool(ann)}) produced {got}, the property prescribes {want}", {"events": evs})
            lines.append(f"va.run {aud} {ann} " + " ".join(evs))
            impl.append(" ".join(got))
            kinds.append("va")
            dist["voice_sequences"] += 1
    dist["voice_unsub_between_sessions"] = va_unsub_between_sessions(ck)
    # 4. the other subscriptions: one matching callback per message, unsubscribe stops at once (spec on the implementation)
    others_checked = other_subscriptions(ck)
    outs = run_driver_parallel([lines[i::16] for i in range(16)])
    compared = 0
    for i in range(16):
        if outs[i] is None:
            ck.disagreement("driver failed", {})
            continue
        for l, m, o in zip(lines[i::16], outs[i], impl[i::16]):
            compared += 1
            if m != o:
                ck.disagreement("subscription model != implementation", {"op": l[:300], "model": m[:300], "impl": o[:300]})
    ck.coverage.update({
        "evaluations": len(lines) + others_checked, "model_ops_compared": compared,
        "distinct_nontrivial": len(set(lines)),
        "rule": "case = state-message stream over all state types / camera chunk interleaving (all merges per shape) / "
                "voice-assistant event sequence x handler configuration; distinct by the operation line",
        "traces_validated_against_impl": len(lines),
        "samples": lines[:2] + lines[-2:],
        "distribution": dist, "other_subscription_checks": others_checked, "exhaustive": False,
        "exhaustive_subspaces": {"all interleavings of the camera shapes " + str(shapes): True},
    })
    ck.assumptions += ["value conversion of each state type is C14's; that a removed handler is not invoked is C12's"]


def other_subscriptions(ck: Check) -> int:
    """logs / service calls / home-assistant states (with and without the one-shot handler) / advertisements / raw
    advertisements / connections-free: random streams with unsubscribe points, against Subs.oRun and the text's rule"""
    rng, thorough = ck.rng, ck.tier == "thorough"
    n = 0
    lines, impl, metas = [], [], []
    KINDS = ["log", "svc", "ha", "adv", "raw", "free"]
    for case in range(120 if thorough else 30):
        has_req = case % 2 == 0
        client, conn, tr, loop = live.make_client()
        got = []
        # (the requested log level and dump_config are what the DEVICE is asked for; every log message it then sends - of
        # whatever level - goes to the handler once)
        log_kw = [{}, {"log_level": M.LogLevel.LOG_LEVEL_INFO}, {"log_level": M.LogLevel.LOG_LEVEL_ERROR, "dump_config": True},
                  {"dump_config": False}, {"log_level": M.LogLevel.LOG_LEVEL_NONE}][case % 5]
        client.subscribe_logs(lambda m: got.append(f"log:{int(bytes(m.message)[1:])}"), **log_kw)
        client.subscribe_service_calls(lambda c: got.append(f"svc:{int(c.service[1:])}"))
        if has_req:
            client.subscribe_home_assistant_states(lambda e, a: got.append(f"ha:{int(e[1:])}"), lambda e, a: got.append(f"hareq:{int(e[1:])}"))
        else:
            client.subscribe_home_assistant_states(lambda e, a: got.append(f"ha:{int(e[1:])}"))
        un = {"adv": client.subscribe_bluetooth_le_advertisements(lambda a: got.append(f"adv:{a.address}")),
              "raw": client.subscribe_bluetooth_le_raw_advertisements(lambda r: got.append(f"raw:{r.advertisements[0].address}")),
              "free": client.subscribe_bluetooth_connections_free(lambda f, l: got.append(f"free:{f}"))}
        evs, want, active = [], [], set(KINDS)
        for i in range(rng.randrange(4, 16)):
            if un and rng.random() < 0.15:
                k = rng.choice(sorted(un))
                un.pop(k)()
                active.discard(k)
                evs.append(f"u:{k}")
                continue
            k = rng.choice(KINDS)
            once = rng.random() < 0.4
            msg = {"log": lambda: pb.SubscribeLogsResponse(message=f"l{i}".encode(), level=i % 8),
                   "svc": lambda: pb.HomeassistantServiceResponse(service=f"s{i}"),
                   "ha": lambda: pb.SubscribeHomeAssistantStateResponse(entity_id=f"e{i}", attribute="" if i % 2 else "a", once=once),
                   "adv": lambda: pb.BluetoothLEAdvertisementResponse(address=i),
                   "raw": lambda: pb.BluetoothLERawAdvertisementsResponse(advertisements=[pb.BluetoothLERawAdvertisement(address=i)]),
                   "free": lambda: pb.BluetoothConnectionsFreeResponse(free=i, limit=9)}[k]()
            live.feed_message(conn, msg)
            evs.append(f"m:{k}:{i}:{int(once)}")
            # the rule, from the property text: one call of the matching handler per message of a subscribed kind
            if k in active:
                want.append(f"hareq:{i}" if (k == "ha" and has_req and once) else f"{k}:{i}")
            n += 1
        if got != want:
            ck.violation("c17:subscription:" + next((a.split(":")[0] for a, b in zip(got + ["?"], want + ["?"]) if a != b), "?"),
                         f"subscriptions (one-shot handler given: {has_req}), events {evs}: callbacks {got}, the device's messages "
                         f"prescribe {want}", {"events": evs, "has_request_handler": has_req})
        lines.append(f"sb.other {int(has_req)} {','.join(KINDS)} " + " ".join(evs))
        impl.append(" ".join(got))
        metas.append(evs)
    from common import run_driver
    out = run_driver(lines)
    if out is None:
        ck.disagreement("driver unavailable", {})
    else:
        for l, m, o in zip(lines, out, impl):
            if m != o:
                ck.disagreement("subscriptions: model != implementation", {"op": l[:300], "model": m, "impl": o})
    return n
