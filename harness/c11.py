"""C11 — request–response calls: correspondence + spec search.

implementation : APIConnection.send_messages_await_response_complex on a session established through the real
                 connect path; the harness owns the loop: it injects calls / device messages / cancellations /
                 closes / write failures / clock jumps and runs ONE ready handle at a time, in the loop's own FIFO
                 order (so every schedule explored is one asyncio can produce)
model          : Esp.Request via the Lean driver (`rq.*`): each real handle is mapped to the model event it is
                 (task wake-up of call i, timer of call i, connection_lost) and both sides must agree after every
                 step on every call's status/result, the number of registered handlers per type, the waiter set
                 size and the number of armed request timers
spec (on impl) : result = Lean `scan` of the messages dispatched after the request (rq.scan); timeout exactly at
                 start+timeout; connection error iff closed while pending; cancelled iff the caller cancelled;
                 nothing left registered after the last call ended
"""
from __future__ import annotations

import asyncio
from asyncio import tasks

from aioesphomeapi import api_pb2 as pb
from aioesphomeapi import core
import aioesphomeapi.connection as ac

from common import Check, run_driver_parallel
import fh
import simnet

TY = {21: pb.BinarySensorStateResponse, 25: pb.SensorStateResponse, 26: pb.SwitchStateResponse, 27: pb.TextSensorStateResponse}
TICK = 0.25  # seconds per model tick


def pred(spec):
    if spec is None:
        return None
    k = spec.split(":")
    if k[0] == "all":
        return lambda m: True
    if k[0] == "never":
        return lambda m: False
    if k[0] == "even":
        return lambda m: m.key % 2 == 0
    if k[0] == "t":
        c = TY[int(k[1])]
        return lambda m: type(m) is c
    if k[0] == "te":
        c = TY[int(k[1])]
        return lambda m: type(m) is c and m.key % 2 == 0
    if k[0] == "tag":
        n = int(k[1])
        return lambda m: m.key == n
    if k[0] == "tt":
        c, n = TY[int(k[1])], int(k[2])
        return lambda m: type(m) is c and m.key == n
    raise ValueError(spec)


CAUSE = {"none": 0, "socketClosed": 1, "readFailed": 2, "protocol": 3, "base": 0, "pingFailed": 5, "requiresEncryption": 6, "recorded": 7}


def err_name(e):
    if getattr(e, "verif_recorded", False):
        return "recorded"   # the cause put on record before the close (itself a TimeoutAPIError, as disconnect() records it)
    if isinstance(e, core.TimeoutAPIError):
        return "timeout"
    if isinstance(e, core.ConnectionNotEstablishedAPIError):
        return "notEstablished"
    c = fh.err_class(e)
    return c


class Bench:
    def __init__(self, defs):
        self.net, self.client, self.conn, self.stops = simnet.established(keepalive=100000.0)
        self.loop = self.net.loop
        self.defs = defs  # i -> (timeout ticks, accept, stop, types)
        self.tasks = {}
        self.t0 = {}
        self.msgs_since = {}
        self.cancelled = set()
        self.finished_at = {}
        self.oneshots = {}        # type -> one-shot user subscribers still registered (not part of any call)
        self.base_handlers = {k: len(v) for k, v in self.conn._message_handlers.items()}

    def now_ticks(self):
        return round(self.loop.time() / TICK)

    def call(self, i):
        to, acc, stp, types = self.defs[i]
        coro = self.conn.send_messages_await_response_complex(
            (pb.SubscribeStatesRequest(),), pred(acc), pred(stp), tuple(TY[t] for t in types), to * TICK)
        self.t0[i] = self.loop.time()
        self.msgs_since[i] = []
        self.tasks[i] = tasks._PyTask(coro, loop=self.loop, name=f"call-{i}", eager_start=True)

    def status(self, i):
        t = self.tasks.get(i)
        if t is None:
            return "idle"
        if not t.done():
            return "waiting"
        if t.cancelled():
            return "cancelled"
        e = t.exception()
        if e is None:
            return "ok[" + ",".join(f"{simnet.PROTO_TO_ID[type(m)]}.{m.key}" for m in t.result()) + "]"
        n = err_name(e)
        if n in ("timeout", "notEstablished"):
            return "err:" + n
        if n == "socketClosed" and i in self.direct_write_fail:
            return "err:socketClosed"
        return f"err:conn:{CAUSE.get(n, 99)}"

    direct_write_fail: set = set()

    def observe(self, watch, enabled=1):
        conn = self.conn
        closed = conn.connection_state is ac.CONNECTION_STATE_CLOSED
        cs = " ".join(f"{i}={self.status(i)}" for i in sorted(self.tasks))
        regs = " ".join(f"{t}:{len(conn._message_handlers.get(TY[t], ())) - self.base_handlers.get(TY[t], 0) - self.oneshots.get(t, 0)}"
                        for t in watch)
        waiters = len(conn._read_exception_futures)
        timers = sum(1 for _, lab in self.loop.armed_timers() if "handle_timeout" in lab)
        # a due timer moved to the ready queue by the clock jump is still armed until its handle runs
        timers += sum(1 for h in self.loop._ready if not h._cancelled and getattr(h._callback, "__name__", "") == "handle_timeout")
        return (f"closed={1 if closed else 0} now={self.now_ticks()} calls=[{cs}] regs=[{regs}] waiters={waiters} "
                f"timers={timers} enabled={enabled}")

    def fatal_code(self):
        f = self.conn._fatal_exception
        if f is None:
            return 0
        if getattr(f, "verif_recorded", False):
            return CAUSE["recorded"]
        n = fh.err_class(f)
        if n.startswith("raw:"):
            return CAUSE["readFailed"]
        return CAUSE.get(n, 99)


def run_scenario(defs, ops, watch):
    b = Bench(defs)
    b.direct_write_fail = set()
    lines = ["rq.reset " + " ".join(map(str, watch))]
    obs = ["ok"]
    for i, (to, acc, stp, types) in defs.items():
        lines.append(f"rq.def {i} {to} {acc or 'all'} {stp or 'all'} " + " ".join(map(str, types)))
        obs.append("ok")
    conn, loop, net = b.conn, b.loop, b.net
    bad = []

    def emit(op):
        lines.append(op)
        obs.append(b.observe(watch))
        # at every step: every call still waiting owns one timeout timer and one waiter, an ended call owns nothing
        pending = sum(1 for tk in b.tasks.values() if not tk.done())
        timers = sum(1 for _, lab in loop.armed_timers() if "handle_timeout" in lab)
        timers += sum(1 for h in loop._ready if not h._cancelled and getattr(h._callback, "__name__", "") == "handle_timeout")
        waiters = len(conn._read_exception_futures)
        # "it fails with a timeout error exactly at its timeout": the instant a call turns into a timeout error is its start
        # plus its own timeout (virtual time only moves in `time` ops, after the ready queue has been drained)
        if dead() and getattr(b, "pending_at_close", None) is None:
            # (a call whose own deadline has already been reached is about to end as a timeout: not counted)
            b.pending_at_close = {i_ for i_, tk_ in b.tasks.items() if not tk_.done() and loop.time() < b.t0[i_] + b.defs[i_][0] * TICK - 1e-9}
        for i_, tk_ in b.tasks.items():
            if i_ not in b.finished_at and tk_.done():
                b.finished_at[i_] = loop.time()
                if b.status(i_) == "err:timeout" and i_ in (getattr(b, "pending_at_close", None) or ()) \
                        and not any(k == "timeout-instead-of-connection-error" for k, _ in bad):
                    bad.append(("timeout-instead-of-connection-error", f"call {i_} was waiting when the connection closed; it ended with a timeout "
                                                                       "error at its own deadline instead of failing with the connection's error at the close"))
                if b.status(i_) == "err:timeout":
                    want_t = b.t0[i_] + b.defs[i_][0] * TICK
                    if abs(loop.time() - want_t) > 1e-6 and not any(k == "timeout-instant" for k, _ in bad):
                        bad.append(("timeout-instant", f"call {i_} (timeout {b.defs[i_][0] * TICK} s, started at {b.t0[i_] - 0:.2f}) failed with a "
                                                       f"timeout error at {loop.time():.2f}, i.e. after {loop.time() - b.t0[i_]:.2f} s"))
            if i_ not in b.finished_at and not tk_.done() and loop.time() > b.t0[i_] + b.defs[i_][0] * TICK + 1e-6 \
                    and not any(k == "timeout-missed" for k, _ in bad):
                bad.append(("timeout-missed", f"call {i_} (timeout {b.defs[i_][0] * TICK} s) is still waiting {loop.time() - b.t0[i_]:.2f} s "
                                              "after its request"))
        if (timers > pending or waiters > pending) and not any(k == "leak" for k, _ in bad):
            bad.append(("leak", f"after {op!r}: {pending} call(s) still waiting but request-timers={timers} waiters={waiters}: "
                                f"a call that ended (result / timeout / cancellation / connection loss) left something behind"))

    def dead():
        """closed, or the transport has reported the loss of the connection (connection_lost delivered): the same moment
        for a caller - 'the connection closes' - whatever else had been put on record before"""
        tr_ = net.tr
        return closed() or (tr_ is not None and getattr(tr_, "lost_called", False))

    def closed():
        return conn.connection_state is ac.CONNECTION_STATE_CLOSED

    def do_step():
        """run one ready handle (FIFO) and emit the model event it corresponds to; False if nothing was ready"""
        h = next((c for c in loop._ready if not c._cancelled), None)
        if h is None:
            loop._ready.clear()
            return False
        was = closed()
        cb = h._callback
        self_ = getattr(cb, "__self__", None)
        if isinstance(self_, tasks._PyTask) and self_.get_name().startswith("call-"):
            i = int(self_.get_name()[5:])
            loop.step_one()
            emit(f"rq.wake {i}")
        elif getattr(cb, "__name__", "") == "handle_timeout":
            fut = h._args[0]
            i = next((i for i, tk in b.tasks.items() if getattr(tk, "_fut_waiter", None) is fut), None)
            loop.step_one()
            emit(f"rq.fire {i}" if i is not None else "rq.nop")
        else:
            loop.step_one()
            if not was and closed():
                emit(f"rq.close {b.fatal_code()}")
            else:
                emit("rq.nop")
        return True

    for op in ops:
        was_closed = closed()
        if op[0] == "call":
            i = op[1]
            if i in b.tasks:
                continue
            if not was_closed and net.tr.fail_writes is not None:
                b.direct_write_fail.add(i)
            b.call(i)
            emit(f"rq.call {i}")
        elif op[0] == "msg":
            if was_closed:
                continue
            _, t, tag = op
            r_ = net.send(TY[t](key=tag))
            if r_ == "skipped":
                continue  # the transport is already closing (a reset is queued): the bytes never reach the protocol
            if r_.startswith("raised:") and not any(k == "delivery-raised" for k, _ in bad):
                bad.append(("delivery-raised", f"delivering a well-formed message of type {t} while calls were waiting made data_received raise "
                                               f"{r_[7:]}: the calls waiting for it are disturbed (the transport is lost)"))
            for i, tk in b.tasks.items():
                if not tk.done():
                    b.msgs_since[i].append((t, tag))
            emit(f"rq.msg {t} {tag}")
        elif op[0] == "oneshot":
            # another user of the connection: a subscriber on the same message type that unsubscribes ITSELF from inside its
            # callback, while calls are waiting for that type - "concurrent calls do not disturb each other" includes it
            if was_closed:
                continue
            t = op[1]
            holder = {}

            def once(msg, holder=holder, t=t):
                holder["remove"]()
                b.oneshots[t] -= 1

            holder["remove"] = conn.add_message_callback(once, (TY[t],))
            b.oneshots[t] = b.oneshots.get(t, 0) + 1
            emit("rq.nop")
        elif op[0] == "cancel":
            i = op[1]
            tk = b.tasks.get(i)
            if tk is None or tk.done():
                continue
            tk.cancel()
            b.cancelled.add(i)
            emit(f"rq.cancel {i}")
        elif op[0] == "write":
            net.tr.fail_writes = None if op[1] else OSError("boom")
            emit(f"rq.write {op[1]}")
        elif op[0] == "close":
            if was_closed:
                continue
            kind = op[1]
            if kind.endswith("+rec"):
                # a cause is already on record WITHOUT the connection having been closed - what disconnect() does when it
                # gives up waiting for the connect to finish (TimeoutAPIError, then it goes on) - and then the connection
                # is lost: the waiting calls end at that moment like at any other close
                kind = kind[:-4]
                if conn._fatal_exception is None:
                    rec = core.TimeoutAPIError("Timed out waiting to finish connect before disconnecting")
                    rec.verif_recorded = True
                    conn._set_fatal_exception_if_unset(rec)
            try:
                if kind == "force":
                    conn.force_disconnect()
                elif kind == "eof":
                    net.eof()
                elif kind == "garbage":
                    net.feed(b"\x05\x05\x05")
                elif kind == "reset":
                    net.reset()  # takes effect when the loop runs the connection_lost handle
                elif kind == "peer":
                    net.send(pb.DisconnectRequest())
            except Exception as exc:  # noqa: BLE001
                bad.append(("close-raised", f"closing the connection ({kind}) while calls were outstanding raised "
                                            f"{type(exc).__name__}: {exc}"))
            if closed():
                emit(f"rq.close {b.fatal_code()}")
            else:
                emit("rq.nop")
        elif op[0] == "time":
            # asyncio sleeps only when nothing is ready: drain the ready queue first (each handle is a labelled step)
            while do_step():
                pass
            req = [w for w, lab in loop.armed_timers() if "handle_timeout" in lab]
            if not req:
                continue
            tgt = min(req)
            d = round((tgt - loop.time()) / TICK)
            # partial advances too: op[1] in (0,1] fraction of the way, on the tick grid
            dd = max(1, int(d * op[1])) if d > 0 else 0
            if dd < d:
                loop._vt = loop.time() + dd * TICK
            else:
                dd = d
                loop._vt = tgt
                loop.fire_due()
            emit(f"rq.adv {dd}")
        elif op[0] == "step":
            do_step()
    # drain: let everything finish so the endings can be judged
    for _ in range(400):
        if not do_step():
            break
    # ---- spec on the implementation alone ------------------------------------------------------
    scans = []
    for i, tk in b.tasks.items():
        st = b.status(i)
        if st.startswith("ok["):
            scans.append((i, st, b.msgs_since[i]))
        if st == "cancelled" and i not in b.cancelled:
            bad.append(("cancelled-without-cancel", f"call {i} ended cancelled although the caller never cancelled it"))
        if i in b.cancelled and tk.done() and st != "cancelled" and not st.startswith("err:notEstablished"):
            pass  # a cancel that lands after the coroutine already returned is not a cancel of the call
    # a call whose stop message had been dispatched completes with its result, even when the connection closes before the caller
    # gets to run again
    for i, tk in b.tasks.items():
        st = b.status(i)
        if st.startswith("err:conn") and i not in b.direct_write_fail:
            to_, acc_, stp_, types_ = defs[i]
            pa, ps = pred(acc_), pred(stp_)
            for t_, tag_ in b.msgs_since[i]:
                if t_ not in types_:
                    continue
                m_ = TY[t_](key=tag_)
                if ps is None or ps(m_):
                    bad.append(("completed-call-failed", f"call {i} ended as {st} although the message that completes it (type {t_}, key {tag_}) had "
                                                         "been dispatched before the connection closed"))
                    break
    all_done = all(tk.done() for tk in b.tasks.values())
    if all_done:
        leftover = {t: len(conn._message_handlers.get(TY[t], ())) - b.base_handlers.get(TY[t], 0) - b.oneshots.get(t, 0) for t in watch}
        timers = sum(1 for _, lab in loop.armed_timers() if "handle_timeout" in lab)
        if any(leftover.values()) or len(conn._read_exception_futures) or timers:
            bad.append(("leak", f"all calls ended but handlers={leftover} waiters={len(conn._read_exception_futures)} "
                                f"request-timers={timers} remain"))
    else:
        if dead():
            bad.append(("blocked-on-closed-connection", "the connection is closed / lost and every ready handle has run, yet call(s) "
                        f"{[i for i, tk in b.tasks.items() if not tk.done()]} are still waiting: a call fails with the connection's error when "
                        "the connection closes, however it closes"))
        # some calls are still waiting: each of them owns exactly one timeout timer and one waiter, the ended ones none
        pending = sum(1 for tk in b.tasks.values() if not tk.done())
        timers = sum(1 for _, lab in loop.armed_timers() if "handle_timeout" in lab)
        waiters = len(conn._read_exception_futures)
        if timers > pending or waiters > pending:
            bad.append(("leak", f"{pending} call(s) still waiting but request-timers={timers} waiters={waiters}: a call that "
                                f"ended (result / timeout / cancellation / connection loss) left something behind"))
    b.net.close()
    return lines, obs, bad, scans


PREDS_ACC = [None, "all", "t:21", "te:21", "even", "never"]
PREDS_STOP = [None, "all", "t:25", "tt:25:2", "tag:3", "t:26"]


def gen(ck: Check):
    rng, thorough = ck.rng, ck.tier == "thorough"
    scen = []
    N = 6000 if thorough else 900
    for s in range(N):
        ncalls = rng.choice([1, 1, 2, 2, 3, 4])
        defs = {}
        for i in range(ncalls):
            types = rng.choice([[21], [21, 25], [25], [21, 25, 26], [25, 26]])
            defs[i] = (rng.choice([2, 4, 4, 8, 8, 1, 120, 1300]), rng.choice(PREDS_ACC), rng.choice(PREDS_STOP), types)   # 0.25 s … 325 s
        ops = []
        pending_calls = list(range(ncalls))
        L = rng.randrange(6, 30)
        style = rng.choice(["mixed", "same-turn", "timeouts", "closes"])
        for _ in range(L):
            r = rng.random()
            if pending_calls and r < 0.4:
                ops.append(("call", pending_calls.pop(0)))
                if style == "same-turn" and rng.random() < 0.7:
                    ops.append(("msg", rng.choice([21, 25, 26]), rng.randrange(0, 5)))  # the very next turn
            elif r < 0.5:
                ops.append(("msg", rng.choice([21, 25, 25, 26]), rng.randrange(0, 5)))
                if style == "same-turn" and rng.random() < 0.5:
                    ops.append(rng.choice([("cancel", rng.randrange(ncalls)), ("close", rng.choice(["force", "eof", "reset"])),
                                           ("msg", rng.choice([21, 25]), rng.randrange(0, 5))]))
            elif r < 0.75:
                ops.append(("step",))
            elif r < 0.82:
                ops.append(("cancel", rng.randrange(ncalls)))
            elif r < (0.95 if style == "timeouts" else 0.88):
                ops.append(("time", rng.choice([1.0, 1.0, 0.5])))
            elif r < (0.97 if style == "closes" else 0.91):
                if len(pending_calls) <= ncalls // 2 and not any(o[0] == "close" for o in ops):
                    ops.append(("close", rng.choice(["force", "eof", "garbage", "reset", "peer", "eof+rec", "reset+rec", "garbage+rec"])))
            elif r < 0.985:
                ops.append(("write", rng.choice([0, 1])) if rng.random() < 0.5 else ("oneshot", rng.choice([21, 25, 26])))
            else:
                ops.append(("step",))
        for c in pending_calls:
            ops.append(("call", c))
        # make sure timeouts get their chance
        ops += [("step",)] * 3 + [("time", 1.0), ("step",), ("step",), ("time", 1.0), ("step",), ("step",),
                                  ("time", 1.0), ("step",), ("time", 1.0)]
        scen.append((defs, ops))
    return scen


def run(ck: Check):
    scen = gen(ck)
    watch = [21, 25, 26]
    batches, impl = [], []
    scan_lines, scan_meta = [], []
    dist = {"scenarios": len(scen), "calls": 0, "ok": 0, "timeout": 0, "conn_error": 0, "cancelled": 0, "refused": 0,
            "write_fail": 0, "still_waiting": 0, "steps": 0}
    for si, (defs, ops) in enumerate(scen):
        lines, obs, bad, scans = run_scenario(defs, ops, watch)
        batches.append(lines)
        impl.append(obs)
        last = obs[-1]
        for tok in last[last.index("calls=[") + 7: last.index("] regs")].split(" "):
            if "=" not in tok:
                continue
            st = tok.split("=", 1)[1]
            dist["calls"] += 1
            dist["ok"] += st.startswith("ok[")
            dist["timeout"] += st == "err:timeout"
            dist["conn_error"] += st.startswith("err:conn")
            dist["cancelled"] += st == "cancelled"
            dist["refused"] += st == "err:notEstablished"
            dist["write_fail"] += st == "err:socketClosed"
            dist["still_waiting"] += st == "waiting"
        dist["steps"] += len(lines)
        for key, what in bad:
            ck.violation("request:" + key, what, {"defs": {str(k): v for k, v in defs.items()}, "ops": ops}, kind="scenario")
        for i, st, msgs in scans:
            # the spec function is evaluated in Lean (rq.scan) with the call's own parameters
            to, acc, stp, types = defs[i]
            scan_lines.append([f"rq.reset", f"rq.def {i} {to} {acc or 'all'} {stp or 'all'} " + " ".join(map(str, types)),
                               f"rq.scan {i} " + " ".join(f"{t}.{n}" for t, n in msgs)])
            scan_meta.append((si, i, st))
    W = 16
    # spec: results
    groups = [list(range(k, len(scan_lines), W)) for k in range(W)]
    outs = run_driver_parallel([sum((scan_lines[j] for j in g), []) for g in groups])
    judged = 0
    for g, out in zip(groups, outs):
        if out is None:
            ck.disagreement("driver failed (rq.scan)", {})
            continue
        for n, j in enumerate(g):
            res = out[3 * n + 2]
            si, i, st = scan_meta[j]
            judged += 1
            want = "ok" + res.split(" stop=")[0]
            if not res.endswith("stop=1") or want != st:
                defs, ops = scen[si]
                ck.violation("request:wrong-result", f"call {i} returned {st} but the messages dispatched after its request "
                             f"give {res} under its accept/stop predicates",
                             {"defs": {str(k): v for k, v in defs.items()}, "ops": ops, "call": i}, kind="scenario")
    # correspondence
    groups = [list(range(k, len(batches), W)) for k in range(W)]
    outs = run_driver_parallel([sum((batches[j] for j in g), []) for g in groups])
    compared = 0
    for g, out in zip(groups, outs):
        if out is None:
            ck.disagreement("driver failed", {})
            continue
        pos = 0
        for j in g:
            for k, o in enumerate(impl[j]):
                m = out[pos + k]
                compared += 1
                if m != o:
                    ck.disagreement("request model != implementation",
                                    {"op": batches[j][k], "recent": batches[j][max(0, k - 6): k + 1], "model": m, "impl": o,
                                     "defs": {str(a): b for a, b in scen[j][0].items()}})
                    break
            pos += len(batches[j])
    ck.coverage.update({
        "evaluations": len(scen), "model_ops_compared": compared, "results_judged_by_lean_scan": judged,
        "distinct_nontrivial": len({(str(d), str(o)) for d, o in scen}),
        "rule": "case = (1-4 concurrent calls with types/accept/stop/timeout, interleaving of call/message/cancel/close/"
                "write-failure/clock/loop-step operations); distinct by that pair; all start at least one call",
        "traces_validated_against_impl": len(scen),
        "samples": [{"defs": {str(k): v for k, v in scen[i][0].items()}, "ops": scen[i][1][:25]} for i in (0, 1, len(scen) - 1)],
        "distribution": dist, "exhaustive": False,
    })
    ck.assumptions += [
        "ready handles run in FIFO order (asyncio's own); timers fire exactly at their deadline (virtual time)",
        "the connection's error seen by waiters is compared by class; the mapping raw cause -> ReadFailedAPIError is C09's",
    ]
