"""Committed pairing lists used by the translator (C14).

Model enums / classes are paired with wire enums / messages automatically when the names are equal
or when the repo's own tables (model_conversions.py) pair them; the rest is listed here.  The
translator fails loudly if a model enum or class is neither paired nor excluded, so a new class
cannot slip through unchecked.
"""

ENUM_PAIRS_EXTRA = {
    "AlarmControlPanelCommand": "AlarmControlPanelStateCommand",
    "LastResetType": "SensorLastResetType",
    "UserServiceArgType": "ServiceArgType",
    "VoiceAssistantEventType": "VoiceAssistantEvent",
    "VoiceAssistantTimerEventType": "VoiceAssistantTimerEvent",
}

# model enums with no wire enum (reason)
ENUM_EXCLUDED = {}

CLASS_PAIRS_EXTRA = {
    "DeviceInfo": "DeviceInfoResponse",
    "UserService": "ListEntitiesServicesResponse",
    "UserServiceArg": "ListEntitiesServicesArgument",
    "HomeassistantServiceCall": "HomeassistantServiceResponse",
    "BluetoothDeviceConnection": "BluetoothDeviceConnectionResponse",
    "BluetoothDevicePairing": "BluetoothDevicePairingResponse",
    "BluetoothDeviceUnpairing": "BluetoothDeviceUnpairingResponse",
    "BluetoothDeviceClearCache": "BluetoothDeviceClearCacheResponse",
    "BluetoothGATTRead": "BluetoothGATTReadResponse",
    "BluetoothGATTServices": "BluetoothGATTGetServicesResponse",
    "BluetoothConnectionsFree": "BluetoothConnectionsFreeResponse",
    "BluetoothGATTError": "BluetoothGATTErrorResponse",
    "VoiceAssistantCommand": "VoiceAssistantRequest",
    "VoiceAssistantAudioData": "VoiceAssistantAudio",
}

# dataclasses that are not built from one wire message with from_pb (reason)
CLASS_EXCLUDED = {
    "APIModelBase": "abstract base",
    "APIVersion": "built from two HelloResponse fields, not from a message",
    "EntityInfo": "abstract base of the ListEntities*Response models",
    "EntityState": "abstract base of the *StateResponse models",
    "CameraState": "assembled from several CameraImageResponse chunks by on_state_msg (C17), never from_pb",
}

# the float fields presented rounded to 7 significant digits (pinned: dropping a converter is a
# change of presentation and must be noticed).  (class, field)
DESIGNATED_FLOAT_FIELDS = None  # filled from the tree on first translation and committed in designated_floats.json
