"""C02 — written bytes conform to the wire format.

implementation : APIConnection.send_messages -> frame helper write_packets -> transport.write
spec           : Lean `Spec.decodePlain` on the real bytes (plaintext); for noise the frames are
                 opened by an independent ChaCha20-Poly1305 (noisedev) under consecutive nonces and
                 the symbolic twin is decoded by Lean `Spec.decodeNoise`
model          : Lean `Plain.write` / `Noise.write` (compared byte-for-byte via hash)
ground truth   : (id declared in api.proto *text*, msg.SerializeToString()) per message
"""
from __future__ import annotations

from aioesphomeapi import api_pb2
from aioesphomeapi._frame_helper.noise import APINoiseFrameHelper
from aioesphomeapi._frame_helper.plain_text import APIPlaintextFrameHelper
from aioesphomeapi.connection import CONNECTION_STATE_CONNECTED, APIConnection, ConnectionParams
from aioesphomeapi.core import MESSAGE_TYPE_TO_PROTO
from aioesphomeapi.zeroconf import ZeroconfManager

import fh
import noisedev
import protogen
import prototext
from common import REPO, Check, hx, phash, run_driver

SIZES_PLAIN = [0, 1, 127, 128, 16383, 16384, 70000]
SIZES_NOISE = [0, 1, 127, 128, 255, 256, 16383, 16384, 32767, 32768, 40000, 65514, 65515]
OVERSIZE_NOISE = [65516, 65536 + 300]


def text_ids():
    msgs, _ = prototext.load(REPO)
    return {m["name"]: m["id"] for m in msgs if m["id"] is not None}


def make_conn(noise: bool, rng, debug: bool = False):
    fh.loop()
    dev = None
    psk = noisedev.new_psk(rng) if noise else None
    params = ConnectionParams(
        addresses=["verif.local"], port=6053, password=None, client_info="verif", keepalive=20.0,
        zeroconf_manager=ZeroconfManager(), noise_psk=noisedev.NoiseDevice.b64(psk) if noise else None,
        expected_name=None,
    )
    conn = APIConnection(params, None, debug, "verif")   # debug logging on: a different code path in both writers
    tr = fh.FakeTransport()
    if noise:
        helper = APINoiseFrameHelper(connection=conn, noise_psk=params.noise_psk, expected_name=None,
                                     client_info="verif", log_name="verif")
        helper.connection_made(tr)
        dev = noisedev.NoiseDevice(psk, b"dev")
        import common
        if not dev.read_client_hello(tr.writes.pop(0)):
            raise common.LibraryMisbehaved("noise-handshake", "the client's handshake message does not authenticate under the shared key")
        helper.data_received(noisedev.frame(dev.hello_body()) + noisedev.frame(dev.handshake_body()))
        if not (helper.ready_future.done() and helper.ready_future.exception() is None):
            raise common.LibraryMisbehaved("noise-handshake", "the helper is not ready after a conformant responder's hello and handshake frames")
    else:
        helper = APIPlaintextFrameHelper(connection=conn, client_info="verif", log_name="verif")
        helper.connection_made(tr)
    conn._frame_helper = helper
    conn._set_connection_state(CONNECTION_STATE_CONNECTED)
    return conn, tr, dev


def gen_batches(ck: Check, noise: bool):
    rng, thorough = ck.rng, ck.tier == "thorough"
    classes = list(MESSAGE_TYPE_TO_PROTO.values())
    batches = []
    # every registered class, random content, batches of 1..5
    order = classes[:]
    rng.shuffle(order)
    i = 0
    while i < len(order):
        k = rng.randint(1, 5)
        batches.append([protogen.random_message(c, rng) for c in order[i : i + k]])
        i += k
    # every registered class, empty message, alone
    for c in classes:
        batches.append([c()])
    # payload size classes on classes that can carry them
    carriers = [api_pb2.HelloRequest, api_pb2.BluetoothGATTWriteRequest, api_pb2.VoiceAssistantAudio,
                api_pb2.TextCommandRequest, api_pb2.ExecuteServiceRequest]
    for size in (SIZES_NOISE if noise else SIZES_PLAIN):
        for c in carriers:
            m = protogen.sized_message(c, size) if size else c()
            if m is not None:
                batches.append([m])
                batches.append([api_pb2.PingRequest(), m, api_pb2.PingResponse()])
                if not thorough:
                    break
    # long run of small writes for nonce continuity across byte boundaries of the counter
    n_long = 5000 if thorough else 700
    for j in range(n_long):
        batches.append([api_pb2.PingRequest()] if j % 3 else [api_pb2.PingRequest(), api_pb2.GetTimeRequest()])
    return batches


def pk(ps):
    return " ".join(f"{t}:{hx(p)}" for t, p in ps)


def show(ps):
    return "[" + " ".join(f"{t}:{len(p)}:{phash(p)}" for t, p in ps) + "]"


def run_session(ck: Check, noise: bool, ids, stats, debug: bool = False):
    conn, tr, dev = make_conn(noise, ck.rng, debug)
    batches = gen_batches(ck, noise)
    lines, expect = [], []
    framing = ("noise" if noise else "plain") + ("+debug" if debug else "")
    nonce = 0
    for bi, batch in enumerate(batches):
        truth = [(ids.get(type(m).__name__), m.SerializeToString()) for m in batch]
        before = len(tr.writes)
        try:
            conn.send_messages(tuple(batch))
        except Exception as e:  # noqa: BLE001
            # (batches that exceed the frame format are sent in their own scenarios, not here)
            ck.violation(f"{framing}-send-raised:{type(e).__name__}",
                         f"sending a batch that fits the {framing} frame format (payload sizes {[len(p) for _, p in truth]}) raised "
                         f"{type(e).__name__}: {e}", {"framing": framing, "batch_index": bi, "payload_sizes": [len(p) for _, p in truth],
                                                      "batch": [[type(m).__name__, m.SerializeToString().hex()[:200]] for m in batch]})
            return
        nw = len(tr.writes) - before
        stats["evaluations"] += 1
        stats["distinct"].add((framing, tuple((t, len(p)) for t, p in truth)))
        replay = {"framing": framing, "batch_index": bi,
                  "batch": [[type(m).__name__, m.SerializeToString().hex()[:200]] for m in batch]}
        if nw != 1:
            ck.violation(f"{framing}-write-count:{[type(m).__name__ for m in batch]}",
                         f"batch of {len(batch)} messages was written in {nw} transport writes, not 1", replay)
            continue
        data = tr.writes[-1]
        if noise:
            try:
                got, twin, n0 = dev.open_client_write(data)
            except ValueError as e:
                ck.violation(f"noise-write-undecodable:{[type(m).__name__ for m in batch]}",
                             f"noise write does not decode under the documented format: {e}", replay)
                return
            if n0 != nonce:
                ck.violation("noise-nonce-gap", f"write {bi} started at nonce {n0}, expected {nonce}", replay)
            nonce = dev.recv_n
            if got != truth:
                ck.violation(f"noise-write-content:{[type(m).__name__ for m in batch]}",
                             f"noise write decodes to {show(got)}, messages given were {show(truth)}", replay)
                continue
            lines.append(f"noise.write {n0} {pk(truth)}")
            expect.append(f"w len={len(twin)} hash={phash(twin)} next={nonce}")
            lines.append(f"spec.decnoise {n0} {hx(twin)}")
            expect.append(f"some {show(truth)} next={nonce}")
        else:
            lines.append(f"spec.decplain {hx(data)}")
            expect.append(f"some {show(truth)}")
            lines.append(f"plain.write {pk(truth)}")
            expect.append(f"w len={len(data)} hash={phash(data)}")
    return lines, expect


def oversize(ck: Check, ids, stats, lines, expect):
    """outside the range the noise format can carry: either the bytes still decode to the message
    or the batch is refused with nothing written and the session (nonce chain) intact"""
    ping = (ids["PingRequest"], b"")
    for size in OVERSIZE_NOISE:
        for position in (0, 1):
            conn, tr, dev = make_conn(True, ck.rng)
            m = protogen.sized_message(api_pb2.BluetoothGATTWriteRequest, size)
            batch = (m,) if position == 0 else (api_pb2.PingRequest(), m)
            truth = [(ids[type(x).__name__], x.SerializeToString()) for x in batch]
            stats["evaluations"] += 1
            refused = False
            try:
                conn.send_messages(batch)
            except Exception:  # noqa: BLE001
                refused = True
            replay = {"framing": "noise", "payload_len": size, "class": "BluetoothGATTWriteRequest",
                      "position_in_batch": position, "refused": refused,
                      "header": tr.writes[-1][:3].hex() if tr.writes else None}
            if refused and not tr.writes:
                # conformant refusal; the model must refuse too, and the next write must still decode at nonce 0
                lines.append(f"noise.write 0 {pk(truth)}")
                expect.append("refused next=0")
                conn2_ok = True
                try:
                    conn.send_messages((api_pb2.PingRequest(),))
                    got, _, n0 = dev.open_client_write(tr.writes[-1])
                    conn2_ok = got == [ping] and n0 == 0
                except Exception:  # noqa: BLE001
                    conn2_ok = False
                if not conn2_ok:
                    ck.violation("noise-write-after-refusal",
                                 "after a refused oversize batch the next write no longer decodes under the next nonce",
                                 replay)
                continue
            try:
                got, _, _ = dev.open_client_write(tr.writes[-1])
                ok = got == truth
            except (ValueError, IndexError):
                ok = False
            if not ok:
                ck.violation(
                    "noise-write-oversize",
                    f"noise write_packets with a {size}-byte payload wraps the 16-bit length fields silently: "
                    "the written bytes do not decode to the message",
                    replay,
                )


def run(ck: Check):
    ids = text_ids()
    stats = {"evaluations": 0, "distinct": set()}
    all_lines, all_expect = [], []
    for noise in (False, True):
        for debug in (False, True):
            r = run_session(ck, noise, ids, stats, debug)
            if r:
                all_lines += r[0]
                all_expect += r[1]
    oversize(ck, ids, stats, all_lines, all_expect)
    dis = 0
    if ck.driver_ok:
        out = run_driver(all_lines)
        if out is None:
            ck.disagreement("driver failed", {})
        else:
            for l, m, e in zip(all_lines, out, all_expect):
                if m != e:
                    dis += 1
                    if l.startswith("spec."):
                        # the Lean spec decoder rejects (or decodes differently) what the code wrote
                        ck.violation(f"spec-decode:{l[:60]}",
                                     f"Lean spec decoder on the written bytes gives {m[:120]}, messages given were {e[:120]}",
                                     {"op": l[:400], "spec": m[:400], "expected": e[:400]})
                    else:
                        ck.disagreement("write: model != implementation", {"op": l[:200], "model": m[:200], "impl": e[:200]})
    else:
        ck.disagreement("Lean driver unavailable (build failed): model/spec not executed", {})
    ck.coverage.update({
        "evaluations": stats["evaluations"],
        "distinct_nontrivial": len([d for d in stats["distinct"] if any(n for _, n in d[1])]),
        "rule": "one evaluation = one send_messages batch on a live plaintext or noise session; distinct by "
                "(framing, ((type id, payload length) ...)); non-trivial = some payload non-empty",
        "traces_validated_against_impl": len(all_lines),
        "disagreements_checked": dis,
        "registered_classes_written": len(MESSAGE_TYPE_TO_PROTO),
        "samples": [l[:160] for l in (all_lines[0:2] + all_lines[len(all_lines) // 2 : len(all_lines) // 2 + 2])],
    })
    ck.assumptions += [
        "ChaCha20-Poly1305 (cryptography) and protobuf serialisation are trusted",
        "noise theorems assume packets within the format's range (type < 2^16, payload + 20 < 2^16); "
        "outside it see c02_noise_out_of_range and the known finding noise-write-oversize",
    ]
