"""C12 — dispatch: correspondence + spec search.

implementation : a session established through the real connect path; frames fed through the real plaintext
                 helper (so type numbers travel as varints of any size); subscribers are Python callables that run
                 *scripts* (subscribe/unsubscribe any subscriber, themselves included) from inside the callback
model          : Esp.Dispatch via the Lean driver (`dp.*`); the set-iteration order is reported by the harness
spec (on impl) : (a) a frame whose type number api.proto does not define changes NOTHING observable — no callback,
                 no write, no close, no keepalive effect (the armed deadlines and the next tick's ping are
                 unchanged); (b) a known type with an undecodable payload closes with ProtocolAPIError;
                 (c) a decodable message reaches exactly the subscribers registered when dispatch starts, once each;
                 (d) ping/time/disconnect requests are answered (disconnect: response first, expected stop)
Ground truth for ids is the api.proto text (harness/prototext.py), never the library's registry.
"""
from __future__ import annotations

import itertools

from aioesphomeapi import api_pb2 as pb
import aioesphomeapi.connection as ac

from common import REPO, Check, run_driver_parallel
import fh
import prototext
import simnet

K = 1000.0  # keepalive: ticks are taken explicitly


def declared():
    msgs, _ = prototext.load(REPO)
    return {m["id"]: m["name"] for m in msgs if m.get("id")}


class Bench:
    """one live session + instrumented subscribers"""

    def __init__(self, watch_types, scripts, decl):
        self.net, self.client, self.conn, self.stops = simnet.established(keepalive=K)
        self.loop = self.net.loop
        self.decl = decl
        self.watch = watch_types
        self.scripts = scripts  # h -> [("s"|"u", h2, t)]
        self.events = []  # ("h", id) / ("w", type)
        self.fns, self.removers = {}, {}
        self.shadow = {t: set() for t in watch_types}  # harness's own view of who is subscribed
        tr = self.net.tr
        bench = self

        def on_write(data):
            try:
                for ty, _ in simnet.decode_plain(data):
                    bench.events.append(("w", ty))
            except Exception:  # noqa: BLE001
                bench.events.append(("w", -1))

        tr.on_write = on_write
        self.tr = tr
        self.n_writes0 = len(tr.writes)

    def cls(self, t):
        return getattr(pb, self.decl[t])

    def fn(self, h):
        if h not in self.fns:
            def f(msg, h=h):
                self.events.append(("h", h))
                for op, h2, t in self.scripts.get(h, []):
                    (self.sub if op == "s" else self.unsub)(h2, t)
            self.fns[h] = f
        return self.fns[h]

    def sub(self, h, t):
        self.removers[(h, t)] = self.conn.add_message_callback(self.fn(h), (self.cls(t),))
        self.shadow[t].add(h)

    def unsub(self, h, t):
        r = self.removers.get((h, t))
        if r is not None:
            r()
        self.shadow[t].discard(h)

    def observe(self, ev0, w0):
        conn = self.conn
        closed = conn.connection_state is ac.CONNECTION_STATE_CLOSED
        fatal = fh.err_class(conn._fatal_exception) if conn._fatal_exception else "none"
        new = [x for k, x in self.events[ev0:] if k == "h"]
        writes = [x for k, x in self.events[ev0:] if k == "w" and not self.tr.fail_writes]
        timers = 0 if closed else len(self.loop.armed_timers())
        tbl = []
        for t in self.watch:
            hs = sorted(self.shadow_real(t))
            tbl.append(f"{t}:[{' '.join(map(str, hs))}]")
        stops = " ".join("1" if e else "0" for _, e in self.stops)
        return (f"closed={1 if closed else 0} fatal={fatal} stops=[{stops}] writes=[{' '.join(map(str, writes))}] "
                f"timers={timers} new=[{' '.join(map(str, new))}] tbl={' '.join(tbl)}")

    def shadow_real(self, t):
        """who is really subscribed: read the connection's handler table for our functions"""
        hs = self.conn._message_handlers.get(self.cls(t), set())
        inv = {f: h for h, f in self.fns.items()}
        return [inv[f] for f in hs if f in inv]

    def close(self):
        self.net.close()


def decodes(decl, t, payload) -> bool:
    m = getattr(pb, decl[t])()
    try:
        m.MergeFromString(payload)
        return True
    except Exception:  # noqa: BLE001
        return False


def run_scenario(ops, watch, scripts, decl, n):
    """ops: ("sub",h,t) ("unsub",h,t) ("write",0|1) ("tick",) ("packet", id, payload)
    returns (driver lines, impl observations, spec violations)"""
    b = Bench(watch, scripts, decl)
    lines = [f"dp.reset {n} " + " ".join(map(str, watch))]
    obs = ["ok"]
    for h, sc in scripts.items():
        lines.append(f"dp.script {h} " + " ".join(f"{o}:{h2}:{t}" for o, h2, t in sc))
        obs.append("ok")
    bad = []
    for op in ops:
        ev0, w0 = len(b.events), len(b.tr.writes)
        closed_before = b.conn.connection_state is ac.CONNECTION_STATE_CLOSED
        if op[0] == "sub":
            b.sub(op[1], op[2])
            lines.append(f"dp.sub {op[1]} {op[2]}")
        elif op[0] == "unsub":
            b.unsub(op[1], op[2])
            lines.append(f"dp.unsub {op[1]} {op[2]}")
        elif op[0] == "write":
            b.tr.fail_writes = None if op[1] else OSError("write failed")
            lines.append(f"dp.write {op[1]}")
        elif op[0] == "tick":
            nt = b.loop.next_timer()
            if nt is not None and not closed_before:
                # the ping timer is always the earliest: pong deadlines are 4.5K away and scenarios are short
                labs = [l for w, l in b.loop.armed_timers() if abs(w - nt) < 1e-9]
                b.loop._vt = nt
                b.loop.fire_due()
                b.loop.step_one()
            lines.append("dp.tick")
        elif op[0] == "packet":
            _, t, payload = op
            before = b.observe(ev0, w0) if False else None
            snap_before = (b.conn.connection_state, fh.err_class(b.conn._fatal_exception), len(b.loop.armed_timers()),
                           len(b.tr.writes), list(b.stops))
            expected_subs = set(b.shadow.get(t, ())) if t in b.shadow else set()
            if closed_before:
                lines.append(None)  # nothing is fed once closed (C08's business)
                obs.append(None)
                continue
            fed = b.net.feed(simnet.plain_raw(t, payload)) or ""
            known = t in decl
            ok = known and decodes(decl, t, payload)
            evs = b.events[ev0:]
            # iteration order as observed: user handlers by their own log, internal ones by the reply they write
            reply = {6: 0, 8: 1, 37: 2}
            order = []
            for k, x in evs:
                if k == "h":
                    order.append(x)
                elif k == "w" and x in reply and reply[x] not in order and t in (5, 7, 36):
                    order.append(reply[x])
            lines.append(f"dp.packet {t} {1 if ok else 0} " + " ".join(map(str, order)))
            # ---- spec on the implementation alone ----
            snap_after = (b.conn.connection_state, fh.err_class(b.conn._fatal_exception), len(b.loop.armed_timers()),
                          len(b.tr.writes), list(b.stops))
            invoked = [x for k, x in evs if k == "h"]
            if fed.startswith("raised:") and (not known or ok) and getattr(b.tr, "fail_writes", None) is None:
                bad.append(("frame-made-data-received-raise:" + ("known" if known else "unknown-type"),
                            f"a {'well-formed frame of known' if known else 'frame of undefined'} type {t} made data_received raise {fed[7:]} "
                            "(the transport is lost with it)", t, payload))
            if not known:
                if snap_after != snap_before or evs:
                    bad.append(("unknown-type-has-effect:" + ("0" if t == 0 else "above" if t > max(decl) else "gap"),
                                f"type {t} is not defined by api.proto but processing it changed the connection: "
                                f"before={snap_before} after={snap_after} events={evs}", t, payload))
            elif not ok:
                if not (b.conn.connection_state is ac.CONNECTION_STATE_CLOSED
                        and fh.err_class(b.conn._fatal_exception) == "protocol" and not invoked):
                    bad.append(("bad-payload-not-protocol-close", f"undecodable payload of known type {t}: "
                                f"state={snap_after} invoked={invoked}", t, payload))
            else:
                if b.tr.fail_writes is None or t not in (5, 7, 36):
                    if sorted(invoked) != sorted(expected_subs):
                        bad.append(("not-exactly-once", f"type {t}: subscribers at dispatch start {sorted(expected_subs)} "
                                    f"but callbacks invoked {invoked}", t, payload))
                if b.tr.fail_writes is None:
                    ws = [x for k, x in evs if k == "w"]
                    want = {5: [6], 7: [8], 36: [37]}.get(t, [])
                    if ws != want:
                        bad.append(("wrong-reply", f"request type {t} answered with {ws}, expected {want}", t, payload))
                if t == 5:
                    if not (b.conn.connection_state is ac.CONNECTION_STATE_CLOSED and [e for _, e in b.stops] == [True]):
                        bad.append(("disconnect-request-not-expected-close",
                                    f"DisconnectRequest: state={b.conn.connection_state} stops={b.stops}", t, payload))
        obs.append(b.observe(ev0, w0))
        # plumbing scheduled by the operation (transport.close -> connection_lost(None)) runs as its own step
        lost0 = b.tr.lost_called
        b.loop.run_idle()
        if b.tr.lost_called and not lost0:
            lines.append("dp.lost")
            obs.append(b.observe(len(b.events), 0))
    b.close()
    keep = [(l, o) for l, o in zip(lines, obs) if l is not None]
    return [l for l, _ in keep], [o for _, o in keep], bad


def gen(ck: Check, decl):
    rng, thorough = ck.rng, ck.tier == "thorough"
    n = max(decl)
    scen = []  # (ops, watch, scripts)
    T1, T2 = 21, 25  # BinarySensorStateResponse, SensorStateResponse
    valid = {21: pb.BinarySensorStateResponse(key=1, state=True).SerializeToString(),
             25: pb.SensorStateResponse(key=2, state=1.5).SerializeToString()}
    # 1. ids: 0, every declared id, every undeclared id up to 65535 (sampled densely in quick), large varints;
    #    each in three contexts: idle, with an unanswered ping pending (pong deadline armed), before a tick
    undeclared = [0] + [i for i in range(1, n + 2) if i not in decl] + [n + 1, n + 2, 127, 128, 255, 256, 1000, 16383, 16384,
                                                                        65535, 65536, 2**21, 2**32 - 1, 2**32 + 5, 2**63, 2**64 - 1]
    undeclared = sorted(set(i for i in undeclared if i not in decl))
    extra = list(range(n + 1, 65536)) if thorough else [rng.randrange(n + 1, 65536) for _ in range(150)]
    for t in undeclared + extra:
        for payload in (b"", b"\x08\x01", bytes(rng.randrange(256) for _ in range(rng.randrange(1, 12)))):
            ctx = rng.choice(["idle", "pong", "pretick"]) if t in extra else None
            for c in ([ctx] if ctx else ["idle", "pong", "pretick"]):
                ops = []
                if c == "pong":
                    ops = [("tick",)]
                ops += [("sub", 3, T1), ("packet", t, payload)]
                if c == "pretick":
                    ops += [("tick",)]
                ops += [("packet", T1, valid[T1]), ("tick",)]
                scen.append((ops, [T1, T2], {}))
    for t in sorted(decl):
        cls = getattr(pb, decl[t])
        full = cls().SerializeToString()
        pays = [b"", b"\x08", b"\xff\xff\xff", b"\x0a\x05ab", bytes(rng.randrange(256) for _ in range(6))]
        for payload in pays:
            if t == 5 and False:
                continue
            for c in ("idle", "pong"):
                ops = ([("tick",)] if c == "pong" else []) + [("sub", 3, T1), ("packet", t, payload),
                                                              ("packet", T1, valid[T1]), ("tick",)]
                scen.append((ops, [T1, T2], {}))
    # 2. re-entrant scripts: 3 subscribers x 2 types, every script of length <= 2 over a small action alphabet
    acts = [(o, h, t) for o in "su" for h in (3, 4, 5) for t in (T1, T2)]
    scripts1 = [[]] + [[a] for a in acts] + ([[a, b] for a in acts for b in acts] if thorough else
                                            [[rng.choice(acts), rng.choice(acts)] for _ in range(60)])
    for sc3 in scripts1:
        for sc4 in ([[]] + [[a] for a in acts] if thorough else [[], [rng.choice(acts)], [rng.choice(acts)]]):
            subs = [("sub", 3, T1), ("sub", 4, T1)] + ([("sub", 5, T2)] if rng.random() < 0.5 else [])
            ops = subs + [("packet", T1, valid[T1]), ("packet", T2, valid[T2]), ("packet", T1, valid[T1]),
                          ("packet", T2, valid[T2])]
            scen.append((ops, [T1, T2], {3: sc3, 4: sc4}))
    # 3. random histories with internal requests, write failures, subscribers on request types
    for _ in range(3000 if thorough else 400):
        scripts = {h: [rng.choice(acts) for _ in range(rng.randrange(0, 3))] for h in (3, 4, 5)}
        ops = []
        for _ in range(rng.randrange(3, 12)):
            r = rng.random()
            if r < 0.25:
                ops.append(("sub", rng.choice((3, 4, 5)), rng.choice((T1, T2, 7, 5, 36))))
            elif r < 0.35:
                ops.append(("unsub", rng.choice((3, 4, 5)), rng.choice((T1, T2, 7, 5, 36))))
            elif r < 0.42:
                ops.append(("write", rng.choice((0, 1))))
            elif r < 0.5 and sum(1 for o in ops if o[0] == "tick") < 3:
                ops.append(("tick",))
            else:
                t = rng.choice((T1, T2, T1, T2, 7, 36, 5, 8, 0, n + 1, rng.randrange(1, n + 1)))
                p = valid.get(t, b"") if rng.random() < 0.8 else bytes(rng.randrange(256) for _ in range(4))
                ops.append(("packet", t, p))
        scen.append((ops, [T1, T2, 5, 7, 36], scripts))
    return scen, n


def connect_phase_requests(ck: Check) -> int:
    import simnet
    from aioesphomeapi import api_pb2 as pb
    from aioesphomeapi.client import APIClient
    from aioesphomeapi.connection import PROTO_TO_MESSAGE_TYPE

    REQ = {"ping": (pb.PingRequest, pb.PingResponse), "time": (pb.GetTimeRequest, pb.GetTimeResponse),
           "disc": (pb.DisconnectRequest, pb.DisconnectResponse)}
    n = 0
    for login in (False, True):
        stages = ["before-hello"] + (["between-hello-and-login"] if login else []) + ["after", "while-disconnecting"]
        for stage in stages:
            for kind, (req, resp) in REQ.items():
                for together in (False, True):      # the request alone in its read, or in the same read as the next response
                    net = simnet.Net()
                    loop = net.loop
                    net.auto_resolve = net.auto_sock = True
                    client = APIClient("10.0.0.1", 6053, "pw" if login else None, keepalive=1e6)
                    stops = []

                    async def on_stop(expected, stops=stops):
                        stops.append(expected)

                    o = simnet.spawn(loop, client.connect(on_stop=on_stop, login=login), "connect")
                    loop.run_idle()
                    script = [simnet.hello_response(1, 10, "")] + ([simnet.connect_response(False)] if login else [])
                    pos = {"before-hello": 0, "between-hello-and-login": 1, "after": len(script), "while-disconnecting": len(script)}[stage]
                    script.insert(pos, req())
                    before = len(net.written())
                    i = 0
                    while i < len(script):
                        if stage == "while-disconnecting" and isinstance(script[i], req):
                            # a local disconnect() is waiting for the device's DisconnectResponse when the request arrives
                            dtask = simnet.spawn(loop, client.disconnect(), "disconnect")
                            loop.run_idle()
                        chunk = [script[i]]
                        if together and isinstance(script[i], req) and i + 1 < len(script):
                            chunk.append(script[i + 1])
                        net.send(*chunk)
                        loop.run_idle()
                        i += len(chunk)
                    got = [ty for _, ty, _ in net.written()[before:]]
                    want_ty = PROTO_TO_MESSAGE_TYPE[resp]
                    n += 1
                    rep = {"login": login, "stage": stage, "request": kind, "same_read_as_next_response": together,
                           "written_types": got, "connect_outcome": o.cls()}
                    if stage == "while-disconnecting":
                        net.send(pb.DisconnectResponse())
                        loop.run_idle()
                    if got.count(want_ty) != 1:
                        ck.violation(f"c12:request-during-connect:{kind}:{stage}",
                                     f"the device sent {req.__name__} {stage.replace('-', ' ')} (login={login}): {got.count(want_ty)} "
                                     f"{resp.__name__} written (types written {got}); the device's requests are answered with the "
                                     "matching response", rep)
                    if kind == "disc":
                        conn = client._connection
                        closed = conn is None or conn.is_connected is False
                        if not closed or (stage in ("after", "while-disconnecting") and stops != [True]):
                            ck.violation(f"c12:disconnect-request-during-connect:{stage}",
                                         f"DisconnectRequest {stage} (login={login}): closed={closed}, stop callback {stops}", rep)
                    net.close()
    return n


def pre(ck: Check):
    import translate

    translate.run()  # Props/C12 is stated over the generated registry


def run(ck: Check):
    decl = declared()
    scen, n = gen(ck, decl)
    batches, impl, viol = [], [], []
    dist = {"scenarios": len(scen), "packets": 0, "unknown_ids": 0, "known_bad_payload": 0, "dispatched": 0,
            "requests": 0, "scripts_nonempty": 0, "ticks": 0, "write_failures": 0}
    ids_seen = set()
    for ops, watch, scripts in scen:
        # unsubscribe operations only for pairs that some operation subscribes (the public API hands out removers
        # only after a subscribe); scripts included
        lines, obs, bad = run_scenario(ops, watch, scripts, decl, n)
        batches.append(lines)
        impl.append(obs)
        dist["scripts_nonempty"] += any(scripts.values())
        for o in ops:
            if o[0] == "packet":
                dist["packets"] += 1
                ids_seen.add(o[1])
                if o[1] not in decl:
                    dist["unknown_ids"] += 1
                elif not decodes(decl, o[1], o[2]):
                    dist["known_bad_payload"] += 1
                else:
                    dist["dispatched"] += 1
                    dist["requests"] += o[1] in (5, 7, 36)
            dist["ticks"] += o[0] == "tick"
            dist["write_failures"] += o[0] == "write" and o[1] == 0
        for key, what, t, payload in bad:
            ck.violation("dispatch:" + key, what,
                         {"ops": [list(map(lambda x: x.hex() if isinstance(x, bytes) else x, o)) for o in ops],
                          "scripts": {str(k): v for k, v in scripts.items()}, "type": t, "payload": payload.hex()},
                         kind="scenario")
    W = 16
    groups = [list(range(i, len(batches), W)) for i in range(W)]
    outs = run_driver_parallel([sum((batches[j] for j in g), []) for g in groups])
    compared = 0
    for g, out in zip(groups, outs):
        if out is None:
            ck.disagreement("driver failed", {})
            continue
        pos = 0
        for j in g:
            for k, o in enumerate(impl[j]):
                m = out[pos + k]
                compared += 1
                if m != o:
                    ck.disagreement("dispatch model != implementation",
                                    {"op": batches[j][k], "ops": batches[j][: k + 1][-8:], "model": m, "impl": o})
                    break
            pos += len(batches[j])
    # ---- "of a known type": which class a type number means is api.proto's `option (id)`, read from the protocol TEXT - a frame
    # numbered t reaches the subscribers of the class api.proto gives that number, and nobody else
    import live
    by_text = 0
    for t, cname in sorted(decl.items()):
        cls = getattr(pb, cname)
        client, conn, tr, loop = live.make_client()
        got, other = [], []
        conn.add_message_callback(lambda m, got=got: got.append(type(m).__name__), (cls,))
        nb = decl.get(t + 1) or decl.get(t - 1)
        if nb:
            conn.add_message_callback(lambda m, other=other: other.append(type(m).__name__), (getattr(pb, nb),))
        try:
            conn.process_packet(t, b"")
        except Exception as e:  # noqa: BLE001
            got.append("raised:" + type(e).__name__)
        by_text += 1
        if got != [cname] or other:
            ck.violation(f"c12:id-meaning:{t}", f"a well-formed frame of type {t} (api.proto: {cname}) was delivered to the subscribers of {cname} "
                         f"{got.count(cname)} time(s) {got}, to the subscriber of the neighbouring type {nb}: {other}",
                         {"type": t, "class_in_api_proto": cname, "delivered_as": got, "neighbour": nb, "neighbour_got": other})
    dist["ids_delivered_by_protocol_text"] = by_text
    # ---- one callback subscribed to SEVERAL types in one call (as subscribe_states does), next to subscribers of single types:
    # "delivered to every subscriber registered FOR THAT TYPE" - registrations of different types never share anything
    multi = 0
    TA, TB, TC = pb.SensorStateResponse, pb.BinarySensorStateResponse, pb.SwitchStateResponse
    for first_multi in (True, False):
        for remove_order in ("single-first", "multi-first", "none"):
            client, conn, tr, loop = live.make_client()
            log = []
            def mk(tag):
                return lambda m, tag=tag: log.append((tag, type(m).__name__))
            regs = [("M", (TA, TB, TC)), ("a", (TA,)), ("b2", (TB, TC))]
            if not first_multi:
                regs = regs[1:] + regs[:1]
            rem = {tag: conn.add_message_callback(mk(tag), types) for tag, types in regs}
            def deliver(cls):
                log.clear()
                live.feed_message(conn, cls(key=1))
                return sorted(log)
            want = {TA: [("M", "SensorStateResponse"), ("a", "SensorStateResponse")],
                    TB: [("M", "BinarySensorStateResponse"), ("b2", "BinarySensorStateResponse")],
                    TC: [("M", "SwitchStateResponse"), ("b2", "SwitchStateResponse")]}
            got = {c: deliver(c) for c in (TA, TB, TC)}
            ok = all(got[c] == sorted(want[c]) for c in want)
            if remove_order != "none":
                rem["a" if remove_order == "single-first" else "M"]()
                gone = "a" if remove_order == "single-first" else "M"
                got2 = {c: deliver(c) for c in (TA, TB, TC)}
                ok = ok and all(got2[c] == sorted(x for x in want[c] if x[0] != gone) for c in want)
                got = {"before": {c.__name__: v for c, v in got.items()}, "after_removing_" + gone: {c.__name__: v for c, v in got2.items()}}
            else:
                got = {c.__name__: v for c, v in got.items()}
            multi += 1
            if not ok:
                ck.violation(f"c12:multi-type-subscription:{first_multi}:{remove_order}", "subscribers M (three types in one call), a (one of them) "
                             f"and b2 (the other two), registered {'M first' if first_multi else 'M last'}: deliveries {got}",
                             {"multi_first": first_multi, "remove": remove_order, "deliveries": str(got)})
    dist["multi_type_subscriptions"] = multi
    # ---- the device's own requests are answered from the moment the session can receive: during the hello / login
    # exchange as well as afterwards (real connect path over SimNet)
    during = connect_phase_requests(ck)
    dist["requests_during_connect"] = during
    ck.coverage.update({
        "evaluations": len(scen), "model_ops_compared": compared,
        "distinct_nontrivial": len({(tuple(map(str, o)), str(s)) for o, _, s in scen}),
        "rule": "case = (operation history over subscribe/unsubscribe/packet/tick/write-failure, subscriber scripts); "
                "distinct by that pair; every case processes at least one packet",
        "traces_validated_against_impl": len(scen),
        "samples": [{"ops": [[x.hex() if isinstance(x, bytes) else x for x in o] for o in scen[i][0]],
                     "scripts": {str(k): v for k, v in scen[i][2].items()}} for i in (0, len(scen) // 2, len(scen) - 1)],
        "distribution": dist, "distinct_type_numbers": len(ids_seen),
        "undeclared_ids_up_to_65535_all": ck.tier == "thorough", "exhaustive": False,
    })
    ck.assumptions += [
        "protobuf decoding is an oracle (MergeFromString of the class api.proto declares for the id)",
        "set iteration order is an oracle reported by the harness; internal handlers are located by the reply they write",
        "unsubscribe is only generated for (subscriber, type) pairs for which a remover exists (public API contract)",
    ]
