"""Virtual-time, single-step asyncio loop that owns every scheduling decision.

* no real I/O (null selector), virtual clock, pure-Python tasks/futures so that handles can be labelled
* `step_one()` runs exactly one ready handle and returns its label
* timers fire only when the scenario moves the clock (`advance_to`, `fire_next`)
"""
from __future__ import annotations

import asyncio
import heapq
import selectors
from asyncio import events, futures, tasks


class NullSelector(selectors.BaseSelector):
    def __init__(self):
        self._m = {}

    def register(self, f, e, d=None):
        k = selectors.SelectorKey(f, f if isinstance(f, int) else f.fileno(), e, d)
        self._m[k.fd] = k
        return k

    def unregister(self, f):
        return self._m.pop(f if isinstance(f, int) else f.fileno())

    def select(self, timeout=None):
        return []

    def get_map(self):
        return self._m


def cb_name(cb) -> str:
    if hasattr(cb, "func") and not hasattr(cb, "__self__"):  # functools.partial
        return "partial:" + cb_name(cb.func)
    name = getattr(cb, "__qualname__", None) or type(cb).__name__
    return name


def label_of(handle) -> str:
    cb = handle._callback
    self_ = getattr(cb, "__self__", None)
    if isinstance(self_, tasks._PyTask):
        return f"task:{self_.get_name()}"
    return cb_name(cb)


class SimLoop(asyncio.SelectorEventLoop):
    def __init__(self, base=0.0):
        super().__init__(NullSelector())
        self._vt = base   # a monotonic clock does not start at zero: benches that do not need t=0 use another base
        self._clock_resolution = 1e-9
        self.log = []
        self.unhandled = []
        self.set_task_factory(lambda loop, coro, **kw: tasks._PyTask(coro, loop=loop, **kw))
        self.set_exception_handler(lambda loop, ctx: self.unhandled.append(ctx))

    def time(self):
        return self._vt

    def create_future(self):
        return futures._PyFuture(loop=self)

    # -- stepping --------------------------------------------------------
    def ready_labels(self):
        return [label_of(h) for h in self._ready if not h._cancelled]

    def step_one(self):
        """run exactly one ready handle; return its label or None when nothing is ready"""
        while self._ready:
            h = self._ready.popleft()
            if h._cancelled:
                continue
            lab = label_of(h)
            self.log.append((self._vt, lab))
            h._run()
            return lab
        return None

    def run_idle(self, limit=100000):
        n = 0
        while self.step_one() is not None:
            n += 1
            if n > limit:
                raise RuntimeError("livelock: ready queue never drains")
        return n

    # -- timers ----------------------------------------------------------
    def _purge(self):
        while self._scheduled and self._scheduled[0]._cancelled:
            h = heapq.heappop(self._scheduled)
            h._scheduled = False

    def next_timer(self):
        self._purge()
        return self._scheduled[0]._when if self._scheduled else None

    def armed_timers(self):
        """[(when, label)] of non-cancelled timers, sorted"""
        return sorted((h._when, label_of(h)) for h in self._scheduled if not h._cancelled)

    def fire_due(self):
        """move every due timer to the ready queue (asyncio does this once per iteration)"""
        n = 0
        while True:
            self._purge()
            if not self._scheduled or self._scheduled[0]._when > self._vt + 1e-12:
                break
            h = heapq.heappop(self._scheduled)
            h._scheduled = False
            self._ready.append(h)
            n += 1
        return n

    def advance_to(self, t):
        """run until virtual time t: drain ready queue, jump to each timer in turn"""
        while True:
            self.run_idle()
            nt = self.next_timer()
            if nt is None or nt > t + 1e-12:
                break
            self._vt = max(self._vt, nt)
            self.fire_due()
        self._vt = max(self._vt, t)
        self.run_idle()

    def advance(self, dt):
        self.advance_to(self._vt + dt)

    def run_until_quiet(self, max_time=10_000.0):
        """run until nothing is ready and no timer is armed (or max_time is reached)"""
        while True:
            self.run_idle()
            nt = self.next_timer()
            if nt is None or nt > max_time:
                return
            self._vt = max(self._vt, nt)
            self.fire_due()


_installed = None


def install(base=0.0) -> SimLoop:
    """create a SimLoop, make it the current and *running* loop, point the library's eager-task
    helper at pure-Python tasks"""
    global _installed
    loop = SimLoop(base)
    asyncio.set_event_loop(loop)
    events._set_running_loop(loop)
    import threading

    loop._thread_id = threading.get_ident()  # is_running() -> True, so eager tasks start eagerly as in a live loop
    import aioesphomeapi.util as u

    if hasattr(u, "Task"):
        u.Task = tasks._PyTask
    _installed = loop
    return loop


def uninstall(loop: SimLoop):
    events._set_running_loop(None)
    loop._thread_id = None
    try:
        loop.close()
    except Exception:  # noqa: BLE001
        pass
    asyncio.set_event_loop(None)


def all_tasks(loop):
    return [t for t in tasks.all_tasks(loop)]
