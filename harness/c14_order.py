"""C14 helper, run in a FRESH interpreter: convert the given messages after a prelude that uses the model classes in an
unusual order (bare base classes first / the listed classes in the given order), and print one repr per message.
A conversion that is total and value-preserving is a function of the message alone, so the parent process - which
converted the same payloads in its own order and judged them against the wire values - must see the same results.
stdin: {"bare": [...class names built with no arguments first...], "items": [[class, message, payload hex], ...]}"""
import json
import sys


def main():
    req = json.load(sys.stdin)
    import aioesphomeapi.model as M
    from aioesphomeapi import api_pb2
    for n in req["bare"]:
        try:
            getattr(M, n)()
        except Exception:  # noqa: BLE001 — a class that needs arguments is simply not part of the prelude
            pass
    out = []
    for cname, mname, hx in req["items"]:
        msg = getattr(api_pb2, mname)()
        msg.ParseFromString(bytes.fromhex(hx))
        try:
            out.append(repr(getattr(M, cname).from_pb(msg)))
        except Exception as e:  # noqa: BLE001
            out.append(f"raised {type(e).__name__}: {e}")
    json.dump(out, sys.stdout)


main()
