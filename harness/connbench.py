"""Drive the real APIConnection through a scenario, one atomic event-loop step at a time, and emit
(a) the model events of Esp.Conn that each real step corresponds to, (b) the observation after each step.

ops (the scenario alphabet):
  ("callStart",) ("resolved", ok) ("sockDone", ok) ("callFinish",) ("callDisc",) ("force",)
  ("cancel", "start"|"finish"|"disc") ("data", [pkt...]) ("eof",) ("reset",) ("setWrite", 0|1)
  ("step",)            run the next ready handle (asyncio's FIFO order)
  ("timer", kind)      jump the clock to the deadline of that armed timer; due timers become ready
pkts: "hello:MN" (M: major ok, N: name ok) "connect:I" "discreq" "discresp" "pingreq" "other" "bad" "garbage"
"""
from __future__ import annotations
import common

import asyncio
from asyncio import tasks

from aioesphomeapi import api_pb2 as pb
import aioesphomeapi.connection as ac
from aioesphomeapi.connection import APIConnection, ConnectionParams
from aioesphomeapi.zeroconf import ZeroconfManager

import fh
import simnet

EXPECTED = "dev"

STATE = {
    ac.CONNECTION_STATE_INITIALIZED: "init", ac.CONNECTION_STATE_SOCKET_OPENED: "sockOpen",
    ac.CONNECTION_STATE_HANDSHAKE_COMPLETE: "hsDone", ac.CONNECTION_STATE_CONNECTED: "connected",
    ac.CONNECTION_STATE_CLOSED: "closed",
}


def frame_of(p: str) -> bytes:
    if p.startswith("hello:"):
        m, n = p[6] == "1", p[7] == "1"
        return simnet.plain_frame(pb.HelloResponse(api_version_major=1 if m else 3, api_version_minor=10,
                                                   name=EXPECTED if n else "zzz", server_info="sim"))
    if p.startswith("connect:"):
        return simnet.plain_frame(pb.ConnectResponse(invalid_password=p[8] == "1"))
    if p == "discreq":
        return simnet.plain_frame(pb.DisconnectRequest())
    if p == "discresp":
        return simnet.plain_frame(pb.DisconnectResponse())
    if p == "pingreq":
        return simnet.plain_frame(pb.PingRequest())
    if p == "other":
        return simnet.plain_frame(pb.SensorStateResponse(key=1, state=1.0))
    if p == "bad":
        return simnet.plain_raw(25, b"\xff\xff\xff")
    if p == "garbage":
        return b"\x07\x07\x07"
    if p == "srvhello":
        # a Noise ServerHello frame (indicator 1, 16-bit length; chosen protocol 1, name, mac) announcing ANOTHER device
        body = b"\x01" + b"zzz\x00" + b"aabbccddeeff\x00"
        return b"\x01" + len(body).to_bytes(2, "big") + body
    raise ValueError(p)


_wf = [0]
_rf = [0]


class ObservedConnection(APIConnection):
    """the real connection; the first error handed to report_fatal_error is remembered for the oracle"""
    __slots__ = ("first_reported",)

    def report_fatal_error(self, err):
        if getattr(self, "first_reported", None) is None:
            self.first_reported = err
        super().report_fatal_error(err)


class Bench:
    def __init__(self, login=False, keepalive=20.0, noise=False):
        self.net = simnet.Net(base=5000.0)
        self.noise = noise
        self.loop = self.net.loop
        self.login = login
        params = ConnectionParams(addresses=common.address_form(), port=6053, password="pw" if login else None,
                                  client_info="verif", keepalive=keepalive, zeroconf_manager=ZeroconfManager(),
                                  noise_psk=("QRTIErOb/fcE9Ukd/5qA3RGYMn0Y+p06U58SCtOXvPc=" if noise else None),
                                  expected_name=EXPECTED)
        self.stops = []
        self.conn = ObservedConnection(params, lambda e: self.stops.append(e), common.debug_flip(), None)
        self.deliv = 0
        self.conn.add_message_callback(self._on_state, (pb.SensorStateResponse,))
        self.tasks = {}
        self.lines, self.obs = [f"cn.reset {1 if noise else 0} {1 if login else 0}"], ["ok"]
        self.fut_kind = {}     # id(future) -> "hs" | "hello" | "discresp"
        self.tmo_kind = {}     # id(Timeout) -> "resolve" | "tcp"
        self.steps = []        # (label, model event) for evidence/debugging
        self.raw_escapes = []
        self.refused = 0
        self.extra_accepted = []
        self.t_start, self.t_done = {}, {}
        self.user_cancelled = set()

    def _on_state(self, msg):
        self.deliv += 1

    # ------------------------------------------------------------------ observation
    def _classify_timers(self):
        kinds = []
        handles = [h for h in self.loop._scheduled if not h._cancelled]
        handles += [h for h in self.loop._ready if not h._cancelled and isinstance(h, asyncio.TimerHandle)]
        for h in handles:
            cb = h._callback
            name = getattr(cb, "__name__", "")
            if name == "handle_timeout":
                fut = h._args[0]
                k = self.fut_kind.get(id(fut))
                if k is None:
                    tr = self.net.tr
                    proto = None
                    for t in self.net.transports:
                        proto = t.protocol
                    hp = getattr(self.conn, "_frame_helper", None) or proto
                    if hp is not None and getattr(hp, "ready_future", None) is fut:
                        k = "hs"
                    elif "disc" in self.tasks and getattr(self.tasks["disc"], "_fut_waiter", None) is fut:
                        k = "discresp"
                    elif "finish" in self.tasks and getattr(self.tasks["finish"], "_fut_waiter", None) is fut:
                        k = "hello"
                    else:
                        k = "req?"
                    self.fut_kind[id(fut)] = k
                    self._keep = getattr(self, "_keep", []) + [fut]
                kinds.append(k)
            elif name == "_async_send_keep_alive":
                kinds.append("ping")
            elif name == "_async_pong_not_received":
                kinds.append("pong")
            elif name == "_on_timeout":
                obj = cb.__self__
                k = self.tmo_kind.get(id(obj))
                if k is None:
                    k = "resolve" if "resolve" not in self.tmo_kind.values() else "tcp"
                    self.tmo_kind[id(obj)] = k
                    self._keep = getattr(self, "_keep", []) + [obj]
                kinds.append(k)
            elif name == "_release_waiter":
                kinds.append("discwait")
            else:
                kinds.append("?" + name)
        order = ["resolve", "tcp", "hs", "hello", "ping", "pong", "discwait", "discresp"]
        return sorted(kinds, key=lambda k: order.index(k) if k in order else 99)

    def _outcome(self, name):
        t = self.tasks.get(name)
        if t is None:
            return "idle"
        if not t.done():
            return "pending"
        if t.cancelled():
            return "raw:CancelledError"
        e = t.exception()
        if e is None:
            return "ok" if name != "disc" else "done"
        c = fh.err_class(e)
        if name == "disc":
            return "raw"
        return c if c.startswith("raw:") else "err:" + c

    def observe(self):
        c = self.conn
        fatal = "none"
        if c._fatal_exception is not None:
            k = fh.err_class(c._fatal_exception)
            fatal = "raw" if k.startswith("raw:") else k
        trs = self.net.transports
        tr = "none" if not trs else ("closed" if trs[-1].closing else "open")
        socks = self.net.sockets
        sock = "none" if not socks else ("closed" if socks[-1].closed else "open")
        writes = sum(len(t.writes) + t.writes_after_close for t in trs)  # write calls (one per send_messages batch)
        stops = " ".join("1" if e else "0" for e in self.stops)
        return (f"st={STATE[c.connection_state]} conn={1 if c.is_connected else 0} hs={1 if c._handshake_complete else 0} fatal={fatal} stops=[{stops}] tr={tr} sock={sock} "
                f"timers=[{' '.join(self._classify_timers())}] writes={writes} deliv={self.deliv} "
                f"start={self._outcome('start')} finish={self._outcome('finish')} disc={self._outcome('disc')} refused={self.refused}")

    def emit(self, ev):
        for n, t in self.tasks.items():
            if t.done() and n not in self.t_done:
                self.t_done[n] = self.loop.time()
        self.lines.append("cn.ev " + ev if ev != "nop" else "cn.nop")
        self.obs.append(self.observe())

    # ------------------------------------------------------------------ operations
    def spawn(self, name, coro):
        self.t_start[name] = self.loop.time()
        self.tasks[name] = tasks._PyTask(coro, loop=self.loop, name=name, eager_start=True)

    def phase_call(self, name, coro, ev):
        """a phase call is either refused at once by the guard (RuntimeError; counted) or becomes THE task of that phase.
        A duplicate call while the first is still in progress is made like any other: "a connection object can be used for
        one connect attempt only", so it must be refused as well (one accepted is recorded in extra_accepted)"""
        t = self.tasks.get(name)
        nt = tasks._PyTask(coro, loop=self.loop, name=name if t is None else name + "#again", eager_start=True)
        if nt.done() and not nt.cancelled() and isinstance(nt.exception(), RuntimeError):
            self.refused += 1
        elif t is None:
            self.t_start[name] = self.loop.time()
            self.tasks[name] = nt
        else:
            self.extra_accepted.append((name, nt))   # a second attempt was ACCEPTED on a used object
            self._keep = getattr(self, "_keep", []) + [nt]
        self.emit(ev)

    def do_step(self):
        loop = self.loop
        h = next((c for c in loop._ready if not c._cancelled), None)
        if h is None:
            loop._ready.clear()
            return False
        cb = h._callback
        self_ = getattr(cb, "__self__", None)
        name = getattr(cb, "__name__", "")
        ev = "nop"
        if isinstance(self_, tasks._PyTask) and self_.get_name() in ("start", "finish", "disc"):
            ev = {"start": "wakeStart", "finish": "wakeFinish", "disc": "wakeDisc"}[self_.get_name()]
        elif name == "_on_interrupt":
            tk = getattr(self_, "_task", None)
            ev = {"start": "cbStart", "finish": "cbFinish"}.get(tk.get_name() if tk else "", "nop")
        elif name == "connection_made":
            ev = "connMade"
        elif name == "_call_connection_lost":
            ev = "lost" if not self_.lost_called else "nop"
        elif name == "handle_timeout":
            self._classify_timers()
            k = self.fut_kind.get(id(h._args[0]), "?")
            ev = {"hs": "fireHs", "hello": "fireHello", "discresp": "fireDiscResp"}.get(k, "nop")
        elif name == "_async_send_keep_alive":
            ev = "firePing"
        elif name == "_async_pong_not_received":
            ev = "firePong"
        elif name == "_on_timeout":
            self._classify_timers()
            ev = {"resolve": "fireResolve", "tcp": "fireTcp"}.get(self.tmo_kind.get(id(self_)), "nop")
        elif name == "_release_waiter":
            ev = "fireDiscWait"
        elif name == "_on_completion":
            ev = "cbDiscWait"
        lab = loop.step_one()
        self.steps.append((lab, ev))
        self.emit(ev)
        return True

    def apply(self, op):
        try:
            self._apply(op)
        except Exception as e:  # noqa: BLE001 — an exception escaping a transport/protocol callback or a user call
            self.raw_escapes.append((op[0], repr(e)))
            self.emit("nop" if op[0] in ("step", "timer") else self._ev_name(op))

    @staticmethod
    def _ev_name(op):
        k = op[0]
        if k == "data":
            return "data " + " ".join(op[1])
        if k == "cancel":
            return {"start": "cancelStart", "finish": "cancelFinish", "disc": "cancelDisc"}[op[1]]
        if k in ("resolved", "sockDone", "setWrite"):
            return f"{k} {op[1]}"
        return k

    def _apply(self, op):
        net, conn, loop = self.net, self.conn, self.loop
        k = op[0]
        if k == "callStart":
            self.phase_call("start", conn.start_connection(), "callStart")
        elif k == "resolved":
            if not net.resolve_futs or net.resolve_futs[0].done():
                return
            net.complete_resolve(None if op[1] else ac.ResolveAPIError("nope"))
            self.emit(f"resolved {1 if op[1] else 0}")
        elif k == "sockDone":
            if not net.sock_futs or net.sock_futs[0].done():
                return
            net.complete_sock(None if op[1] else OSError(111, "refused"))
            self.emit(f"sockDone {1 if op[1] else 0}")
        elif k in ("resolvedExc", "sockExc"):
            # the resolver / the TCP connect fails with something that is NOT a network error (a host name that cannot be
            # encoded, a port out of range, a bug in a resolver plug-in): judged on the implementation only (tag nomodel)
            exc = {"unicode": UnicodeError("label too long"), "overflow": OverflowError("port must be 0-65535"),
                   "type": TypeError("bad argument"), "value": ValueError("bad value"), "key": KeyError("k"),
                   "runtime": RuntimeError("x")}[op[1]]
            if k == "resolvedExc":
                if not net.resolve_futs or net.resolve_futs[0].done():
                    return
                net.complete_resolve(exc)
                self.emit("resolved 0")
            else:
                if not net.sock_futs or net.sock_futs[0].done():
                    return
                net.complete_sock(exc)
                self.emit("sockDone 0")
        elif k == "callFinish":
            self.phase_call("finish", conn.finish_connection(login=self.login), "callFinish")
        elif k == "callDisc":
            if "disc" in self.tasks:
                return
            self.spawn("disc", conn.disconnect())
            self.emit("callDisc")
        elif k == "force":
            try:
                conn.force_disconnect()
            except Exception as e:  # noqa: BLE001
                self.raw_escapes.append(("force_disconnect", repr(e)))
            self.emit("force")
        elif k == "cancel":
            t = self.tasks.get(op[1])
            if t is None or t.done():
                return
            t.cancel()
            self.user_cancelled.add(op[1])
            self.emit({"start": "cancelStart", "finish": "cancelFinish", "disc": "cancelDisc"}[op[1]])
        elif k == "data":
            chunk = b"".join(frame_of(p) for p in op[1])
            r = net.feed(chunk)
            if r == "skipped":
                return
            self.emit("data " + " ".join(op[1]))
        elif k == "eof":
            if net.eof() == "skipped":
                return
            self.emit("eof")
        elif k == "reset":
            tr = net.tr
            if tr is None or tr.closing:
                return
            # connection_lost(exc) comes with whatever made the transport give up: the OSError family for the network, any
            # exception at all when protocol.data_received() itself raised (asyncio's "Fatal error: protocol.data_received()
            # call failed") - the class never reaches a caller unwrapped
            # (a Noise session before the handshake is done singles out ConnectionResetError - "the device reset the
            # connection: wrong encryption setting?" - which is what the model's reset event means there: no rotation)
            _rf[0] += 0 if self.noise else 1
            net.reset([None, OSError(113, "No route to host"), ValueError("raised out of data_received"), None,
                       KeyError("k"), RuntimeError("x"), TimeoutError(110, "timed out"), None, LookupError("l")][_rf[0] % 9 if not self.noise else 0])
            self.emit("reset")
        elif k == "sockFault":
            # the socket handed over next raises OSError from setsockopt / getpeername (one model event for both)
            net.sock_fault = op[1]
            self.emit("sockFault")
        elif k == "setWrite":
            # the failure classes a transport write can raise (asyncio: OSError family; uvloop / after write_eof: RuntimeError)
            _wf[0] += 1
            exc = [OSError("boom"), RuntimeError("the transport is closed"), ConnectionResetError(104, "reset"), BrokenPipeError(32, "pipe")][_wf[0] % 4]
            net.fail_writes = None if op[1] else exc
            for t in getattr(net, "all_transports", []):
                t.fail_writes = net.fail_writes
            self.emit(f"setWrite {op[1]}")
        elif k == "step":
            self.do_step()
        elif k == "timer":
            want = op[1]
            self._classify_timers()
            cand = []
            for h in loop._scheduled:
                if h._cancelled:
                    continue
                cb = h._callback
                nm = getattr(cb, "__name__", "")
                kind = None
                if nm == "handle_timeout":
                    kind = self.fut_kind.get(id(h._args[0]))
                elif nm == "_async_send_keep_alive":
                    kind = "ping"
                elif nm == "_async_pong_not_received":
                    kind = "pong"
                elif nm == "_on_timeout":
                    kind = self.tmo_kind.get(id(cb.__self__))
                elif nm == "_release_waiter":
                    kind = "discwait"
                if kind == want:
                    cand.append(h)
            if not cand:
                return
            # time is urgent: never jump over an earlier deadline — go to the earliest armed timer (of any kind) that is
            # not later than the wanted one; the ready queue must be empty first (asyncio sleeps only when idle)
            while self.do_step():
                pass
            nt = loop.next_timer()
            if nt is None:
                return
            loop._vt = max(loop._vt, min(nt, min(h._when for h in cand)))
            loop.fire_due()
            self.emit("nop")

    def close(self):
        # leave nothing for the garbage collector to complain about: finish whatever is still suspended
        try:
            for t in self.tasks.values():
                if not t.done():
                    t.cancel()
            self.loop.run_idle()
            for t in self.tasks.values():
                if t.done() and not t.cancelled():
                    t.exception()
        except Exception:  # noqa: BLE001
            pass
        self.net.close()


def run_scenario(ops, login=False, drain=True, keepalive=20.0, noise=False):
    b = Bench(login=login, keepalive=keepalive, noise=noise)
    if getattr(b, "_fail_next", False):
        pass
    for op in ops:
        # a transport created after a setWrite keeps the latest setting
        b.apply(op)
        if getattr(b, "_fail_next", False):
            for t in b.net.transports:
                if t.fail_writes is None:
                    t.fail_writes = OSError("boom")
    if drain:
        for _ in range(300):
            if not b.do_step():
                break
    res = (b.lines, b.obs, b)
    return res
