import common, c05, c07, c08, collections, sys
which = sys.argv[1:] or ["C05","C07","C08"]
for mod, pid in ((c05,"C05"),(c07,"C07"),(c08,"C08")):
    if pid not in which: continue
    ck=common.Check(pid,"quick"); ck.driver_ok=True
    mod.run(ck)
    print(pid, "scen", ck.coverage["evaluations"], "viol", [(v.key) for v in ck.violations], "disagreements", len(ck.corr_problems))
    seen=set()
    for d in ck.corr_problems:
        k=(d['at'], d['model'], d['impl'])
        if k in seen: continue
        seen.add(k)
        if len(seen)>6: break
        print("  AT", d['at'], "idx", d['index'], "login", d['login']); print("  OPS", d['ops']); print("  M:", d['model']); print("  I:", d['impl'])
    for v in ck.violations[:4]:
        print("  VIOL", v.key, v.replay['events'][-8:]); print("     ", v.replay['observed'][-1])
