"""Shared machinery of the connection-LTS checks (C05, C07, C08, C09): scenario pool, run, projections,
trace specifications evaluated on the implementation's own observations."""
from __future__ import annotations

import itertools

import connbench
import fh
from common import Check, run_driver_parallel

RANK = {"init": 0, "sockOpen": 1, "hsDone": 2, "connected": 3, "closed": 4}

S = ("step",)
# the happy path, with the loop steps it needs spelled out (so faults can land between any two of them)
def skeleton(login: bool, tail: str):
    ops = [("callStart",), ("resolved", 1), S, ("sockDone", 1), S, ("callFinish",), S, S, S]
    if login:
        ops += [("data", ["hello:11"]), ("data", ["connect:0"]), S]
    else:
        ops += [("data", ["hello:11"]), S]
    if tail == "steady":
        ops += [("data", ["other"]), ("data", ["pingreq", "other"]), ("timer", "ping"), S, ("data", ["other"])]
    elif tail == "disc":
        ops += [("data", ["other"]), ("callDisc",), ("data", ["discresp"]), S, S]
    elif tail == "peer":
        ops += [("data", ["other"]), ("data", ["discreq"]), S]
    elif tail == "silent":
        ops += [("timer", "ping"), S, ("timer", "ping"), S, ("timer", "pong"), S, S]
    return ops


FAULTS = [
    [("force",)], [("callDisc",)], [("cancel", "start")], [("cancel", "finish")], [("cancel", "disc")],
    [("eof",)], [("reset",)], [("data", ["garbage"])], [("data", ["bad"])], [("data", ["discreq"])],
    [("data", ["discreq", "other", "other"])], [("data", ["other", "garbage", "other"])],
    [("data", ["hello:11", "garbage"])], [("data", ["hello:11", "discreq", "other"])],
    [("data", ["hello:11", "connect:0", "garbage"])], [("data", ["connect:0", "hello:11"])],
    [("data", ["hello:01"])], [("data", ["hello:10"])], [("data", ["hello:11", "connect:1"])],
    [("data", ["discresp", "other"])], [("data", ["pingreq"])],
    # a device that speaks Noise to a client configured for plaintext (the frame is a ServerHello): requires-encryption
    [("data", ["srvhello"])], [("data", ["srvhello"]), ("cancel", "finish")], [("data", ["srvhello"]), ("eof",)],
    [("setWrite", 0)], [("setWrite", 0), ("data", ["pingreq"])], [("setWrite", 0), ("data", ["discreq"])],
    # a local close whose own DisconnectRequest cannot be written any more
    [("setWrite", 0), ("force",)], [("setWrite", 0), ("callDisc",), S, S], [("setWrite", 0), ("force",), ("force",)],
    [("setWrite", 0), ("timer", "ping"), S, ("timer", "ping"), S],
    [("timer", "resolve"), S], [("timer", "tcp"), S], [("timer", "hs"), S], [("timer", "hello"), S],
    [("timer", "ping"), S], [("timer", "pong"), S], [("timer", "discwait"), S], [("timer", "discresp"), S],
    [("resolved", 0)], [("sockDone", 0)], [S], [S, S],
    [("callDisc",), ("reset",)], [("callDisc",), S, ("reset",)], [("force",), ("force",)], [("eof",), ("reset",)],
    [("callDisc",), ("data", ["hello:11"]), S, ("reset",), S, S],
    [("callStart",)], [("callFinish",)],
    # a phase that failed or was cancelled, then the same phase called again on the used object
    [("resolved", 0), S, ("callStart",)], [("timer", "resolve"), S, ("callStart",)], [("cancel", "start"), S, ("callStart",)],
    [("sockDone", 0), S, ("callStart",)], [("reset",), S, S, ("callFinish",)], [("cancel", "finish"), S, ("callFinish",)],
    [("sockFault", "setsockopt")], [("sockFault", "getpeername")],
    # a local disconnect that the caller gives up on (cancelled while it waits), then another close cause: the graceful
    # disconnect HAD been initiated
    [("cancel", "disc"), S, ("eof",)], [("cancel", "disc"), S, ("reset",), S], [("cancel", "disc"), S, ("data", ["garbage"])],
    [("callDisc",), S, ("cancel", "disc"), S, ("eof",)], [("callDisc",), S, ("cancel", "disc"), S, ("reset",), S],
    [("callDisc",), ("cancel", "disc"), S, ("setWrite", 0), ("data", ["pingreq"])],
    [("callDisc",), S, ("cancel", "disc"), S, ("timer", "ping"), S, ("timer", "ping"), S, ("timer", "pong"), S],
    # a disconnect() that gave up waiting for the connect to finish (its 5 s wait records a timeout as the fatal cause
    # WITHOUT closing), then a second cause: that one must still close the connection
    [("callDisc",), S, ("timer", "discwait"), S, ("eof",), S], [("callDisc",), S, ("timer", "discwait"), S, ("reset",), S, S],
    [("callDisc",), S, ("timer", "discwait"), S, ("data", ["garbage"]), S], [("callDisc",), ("timer", "discwait"), S, S, ("eof",)],
    [("callDisc",), S, ("timer", "discwait"), S, ("setWrite", 0), ("data", ["pingreq"]), S],
    # ... the caller gives that disconnect() up as well, the hello is answered late - the session IS established, with a
    # cause already on record - and then the connection is lost: a session that ends is reported, whatever was recorded
    [("callDisc",), S, ("timer", "discwait"), S, S, S, ("cancel", "disc"), S, ("data", ["hello:11"]), S, ("reset",), S, S],
    [("callDisc",), S, ("timer", "discwait"), S, S, S, ("cancel", "disc"), S, ("data", ["hello:11"]), S, ("eof",), S, S],
    [("callDisc",), S, ("timer", "discwait"), S, S, S, ("cancel", "disc"), S, ("data", ["hello:11"]), S, ("data", ["other", "garbage"]), S, S],
]


def pool(ck: Check, pairs=False):
    rng = ck.rng
    scen = []
    for login in (False, True):
        for tail in ("steady", "disc", "peer", "silent"):
            sk = skeleton(login, tail)
            scen.append((login, sk, "skeleton"))
            for pos in range(len(sk) + 1):
                for f in FAULTS:
                    scen.append((login, sk[:pos] + f + sk[pos:], f"1fault@{pos}"))
                    if tail in ("steady", "disc"):
                        # … and the same with the environment falling silent after the fault (nothing else ever
                        # completes: whatever is still suspended must be released by the close itself)
                        scen.append((login, sk[:pos] + f, f"1fault@{pos}+silence"))
    if pairs:
        sks = [(l, skeleton(l, t)) for l in (False, True) for t in ("steady", "disc", "peer", "silent")]
        for login, sk in sks:
            for p1 in range(len(sk) + 1):
                for p2 in range(p1, len(sk) + 1):
                    for _ in range(6):
                        f1, f2 = rng.choice(FAULTS), rng.choice(FAULTS)
                        scen.append((login, sk[:p1] + f1 + sk[p1:p2] + f2 + sk[p2:], f"2faults@{p1},{p2}"))
    else:
        for _ in range(1500):
            login = rng.random() < 0.4
            sk = skeleton(login, rng.choice(["steady", "disc", "peer", "silent"]))
            p1, p2 = sorted((rng.randrange(len(sk) + 1), rng.randrange(len(sk) + 1)))
            f1, f2 = rng.choice(FAULTS), rng.choice(FAULTS)
            scen.append((login, sk[:p1] + f1 + sk[p1:p2] + f2 + sk[p2:], f"2faults@{p1},{p2}"))
    return scen


def sockfault_pool():
    """the TCP connect succeeds but the socket is unusable (setsockopt / getpeername raise OSError): the start phase must fail
    with a library error and everything - the socket included - must be released."""
    scen = []
    for fault in ("setsockopt", "getpeername"):
        for login in (False, True):
            sk = [("callStart",), ("resolved", 1), S, ("sockFault", fault), ("sockDone", 1), S, S]
            scen.append((login, sk, "sockfault"))
            scen.append((login, sk + [("callFinish",), S], "sockfault"))
            scen.append((login, sk[:4] + [("force",)] + sk[4:], "sockfault"))
    return scen


def rawfail_pool():
    """the start phase fails with an exception that is not a network error: the object is used up all the same (closed; a
    second attempt refused), and what the caller gets is a library error.  No model event carries the class: tag nomodel."""
    scen = []
    for kind in ("unicode", "overflow", "type", "value", "key", "runtime"):
        scen.append((False, [("callStart",), ("resolvedExc", kind), S, S, ("callStart",), S, ("callFinish",), S], "nomodel-rawfail"))
        scen.append((False, [("callStart",), ("resolved", 1), S, ("sockExc", kind), S, S, ("callStart",), S, ("callFinish",), S],
                     "nomodel-rawfail"))
        scen.append((True, [("callStart",), ("resolvedExc", kind), ("force",), S, S, ("callStart",), S], "nomodel-rawfail"))
    return scen


def noise_pool():
    """a device that speaks Noise but falls silent at some point of the connect (the handshake never completes):
    only the library's timers can end the wait"""
    sk = [("callStart",), ("resolved", 1), S, ("sockDone", 1), S, ("callFinish",), S, S, S]
    silent_faults = [[], [("callDisc",)], [("force",)], [("cancel", "finish")], [("eof",)], [("reset",)], [("data", ["garbage"])],
                     [("timer", "hs"), S], [S],
                     # the ServerHello names ANOTHER device - alone, and with a second event in the same loop turn (the caller
                     # gives up, a local close, the device hangs up): bad name, carrying the received name, whatever else happens
                     [("data", ["srvhello"])], [("data", ["srvhello"]), ("cancel", "finish")], [("cancel", "finish"), ("data", ["srvhello"])],
                     [("data", ["srvhello"]), ("force",)], [("data", ["srvhello"]), ("callDisc",)], [("data", ["srvhello"]), ("eof",)],
                     [("data", ["srvhello"]), ("reset",)], [("data", ["srvhello"]), S, ("cancel", "finish")]]
    scen = []
    for pos in range(len(sk) + 1):
        for f in silent_faults:
            scen.append((False, sk[:pos] + f + sk[pos:], f"noise@{pos}"))
    return scen


def parse(o: str) -> dict:
    d = {}
    i = 0
    toks = o.split(" ")
    j = 0
    while j < len(toks):
        t = toks[j]
        k, _, v = t.partition("=")
        if v.startswith("[") and not v.endswith("]"):
            while not toks[j].endswith("]"):
                j += 1
                v += " " + toks[j]
        d[k] = v
        j += 1
    return d


def project(o: str, keys) -> str:
    d = parse(o)
    return " ".join(f"{k}={d.get(k)}" for k in keys)


BOUNDS = {"start": 30.0 + 60.0, "finish": 30.0 + 30.0, "disc": 5.0 + 10.0}


def run_pool(scen, timed=False):
    """returns per scenario: (lines, obs, info)"""
    out = []
    for login, ops, tag in scen:
        lines, obs, b = connbench.run_scenario(ops, login=login, noise=tag.startswith("noise"))
        hang = None
        if timed:
            # the environment stays silent: let virtual time run; only the library's own timers can end the waits
            for _ in range(60):
                pend = [n for n, t in b.tasks.items() if not t.done()]
                nt = b.loop.next_timer()
                if not pend or nt is None:
                    break
                b.loop._vt = max(b.loop._vt, nt)
                b.loop.fire_due()
                while b.do_step():
                    pass
            pend = [n for n, t in b.tasks.items() if not t.done()]
            if pend:
                hang = f"hang:{pend[0]}"
            else:
                for n, t in b.tasks.items():
                    dur = b.t_done.get(n, b.loop.time()) - b.t_start.get(n, 0.0)
                    if dur > BOUNDS[n] + 1e-6:
                        hang = f"late:{n}:{dur:.1f}s>{BOUNDS[n]}s"
        info = {"steps": list(b.steps), "raw_escapes": list(b.raw_escapes), "unhandled": len(b.loop.unhandled),
                "extra_accepted": [n for n, _ in b.extra_accepted], "hang": hang, "user_cancelled": sorted(b.user_cancelled),
                "first_reported": (fh.err_class(b.conn.first_reported) if getattr(b.conn, "first_reported", None) is not None else None)}
        lines, obs = b.lines, b.obs
        b.close()
        out.append((lines, obs, info))
    return out


def correspond(ck: Check, scen, results, keys, what):
    W = 16
    groups = [list(range(k, len(results), W)) for k in range(W)]
    outs = run_driver_parallel([sum((results[j][0] for j in g), []) for g in groups])
    compared = 0
    for g, out in zip(groups, outs):
        if out is None:
            ck.disagreement("driver failed", {})
            continue
        pos = 0
        for j in g:
            lines, obs, _ = results[j]
            if scen[j][2].startswith("nomodel"):
                pos += len(lines)
                continue
            for k, o in enumerate(obs):
                m = out[pos + k]
                compared += 1
                if k == 0:
                    continue
                if project(m, keys) != project(o, keys):
                    ck.disagreement(what, {"login": scen[j][0], "ops": scen[j][1], "at": lines[k], "index": k,
                                           "model": project(m, keys), "impl": project(o, keys)})
                    break
            pos += len(lines)
    return compared


# ------------------------------------------------------------------ trace specifications (on the implementation)

def spec_c05(obs, info=None, lines=None):
    if info and info.get("extra_accepted"):
        return "second-attempt-accepted:" + info["extra_accepted"][0], len(obs) - 1
    r = spec_c05_trace(obs)
    if r is None and lines is not None:
        # "a disconnect … that has taken effect": a force_disconnect() call, and a disconnect() call that has returned, leave the
        # object closed at whatever point of its life they were made (before the first connect included) - it is used up
        for i, (l, o) in enumerate(zip(lines[1:], obs[1:]), 1):
            d = parse(o)
            if (l == "cn.ev force" or d.get("disc") == "done") and d["st"] != "closed":
                return "not-closed-after-" + ("force-disconnect" if l == "cn.ev force" else "disconnect"), i
    return r


def spec_c05_trace(obs):
    """rank never decreases; closed is absorbing; (is_connected <-> connected is observed through st itself);
    a second start / finish is refused"""
    prev = None
    for i, o in enumerate(obs[1:], 1):
        st = parse(o)["st"]
        if prev is not None:
            if prev == "closed" and st != "closed":
                return f"left-closed:{prev}->{st}", i
            if RANK[st] < RANK[prev]:
                return f"moved-backwards:{prev}->{st}", i
        prev = st
    return None


def spec_c07(obs, lines):
    """stop callback: at most once; exactly once iff the connection reached connected and is closed; the argument is
    true iff a graceful disconnect (local disconnect/force call made, or peer DisconnectRequest dispatched while the
    internal handlers were registered and the connection open) had been initiated before the closing step"""
    ever, graceful, closed_at = False, False, None
    prev_st = "init"
    graceful_at_close = None
    for i, (l, o) in enumerate(zip(lines[1:], obs[1:]), 1):
        d = parse(o)
        st = d["st"]
        # initiation happens at the step itself, before any close that the same step causes
        if l in ("cn.ev callDisc", "cn.ev force"):
            graceful = True
        if l.startswith("cn.ev data") and "discreq" in l.split(" ") and prev_st in ("hsDone", "connected"):
            # dispatched only if it is reached before the connection closes inside the same chunk
            pk = l.split(" ")[2:]
            before = pk[: pk.index("discreq")]
            if not any(p in ("garbage", "bad") for p in before) and not (
                    "hello:01" in before or "hello:10" in before):
                graceful = True
        if st == "connected":
            ever = True
        if st == "closed" and closed_at is None:
            closed_at = i
            graceful_at_close = graceful
        stops = [x for x in d["stops"].strip("[]").split(" ") if x]
        if len(stops) > 1:
            return f"stop-called-{len(stops)}-times", i
        if stops and not ever:
            return "stop-without-session", i
        if stops and closed_at is not None and (stops[0] == "1") != bool(graceful_at_close):
            return f"stop-reason:{stops[0]}-but-graceful-initiated={graceful_at_close}", i
        prev_st = st
    d = parse(obs[-1])
    stops = [x for x in d["stops"].strip("[]").split(" ") if x]
    if ever and d["st"] == "closed" and len(stops) != 1:
        return "no-stop-after-session", len(obs) - 1
    # a session whose transport is gone has ended, whatever had been recorded before: once the loop is idle the callback
    # has been made ("no matter how many close causes occur or in which order")
    if ever and d["tr"] == "closed" and len(stops) != 1:
        return "no-stop-after-transport-lost", len(obs) - 1
    return None


def spec_c08(obs, lines, final_quiescent=True):
    """whenever closed: transport and socket closed (or never made), no keepalive/pong/handshake timer armed, writes and
    subscriber deliveries never grow afterwards; at the end (all tasks resumed) no request timer either"""
    closed_since = None
    prev = parse(obs[0]) if obs and "st=" in obs[0] else None
    for i, o in enumerate(obs[1:], 1):
        d = parse(o)
        # the step that closes: frames that FOLLOW the closing frame in the same chunk are not delivered (bound: the state
        # messages before the last frame of the chunk that can close the connection)
        l = lines[i] if i < len(lines) else ""
        if prev is not None and l.startswith("cn.ev data") and d["st"] == "closed" and prev.get("st") != "closed":
            toks = l.split(" ")[2:]
            closers = [k for k, t in enumerate(toks) if t in ("discreq", "garbage", "bad")]
            if closers:
                bound = sum(1 for t in toks[: closers[-1]] if t == "other")
                if int(d["deliv"]) - int(prev["deliv"]) > bound:
                    return "delivery-after-closing-frame", i
        # a DisconnectRequest that is dispatched closes the connection in the very step that answers it (anything later in
        # the chunk finds it closed)
        if prev is not None and l.startswith("cn.ev data") and "discreq" in l.split(" ")[2:] and prev.get("st") in ("hsDone", "connected") \
                and d["st"] != "closed":
            return "not-closed-by-disconnect-request", i
        prev = d
        # "for any cause or combination of causes": the end of the stream or the loss of the transport closes the connection,
        # whatever was recorded before
        if l in ("cn.ev eof", "cn.ev lost") and d["st"] != "closed":
            return "not-closed-after-" + l.split(" ")[-1], i
        if d["disc"] == "done" and d["st"] != "closed":
            # disconnect() is a close cause at any point of the life: once it has returned the connection is closed
            return "not-closed-after-disconnect", i
        if d["st"] == "closed":
            timers = [x for x in d["timers"].strip("[]").split(" ") if x]
            if d["sock"] == "open":
                return "socket-open-after-close", i
            for t in ("ping", "pong", "hs"):
                if t in timers:
                    return f"timer-armed-after-close:{t}", i
            if closed_since is None:
                closed_since = (int(d["writes"]), int(d["deliv"]))
            else:
                if int(d["writes"]) > closed_since[0]:
                    return "write-after-close", i
                if int(d["deliv"]) > closed_since[1]:
                    return "delivery-after-close", i
    d = parse(obs[-1])
    if final_quiescent and d["st"] == "closed":
        timers = [x for x in d["timers"].strip("[]").split(" ") if x]
        if d["tr"] == "open":
            # (while the cancellation cascade of the closing turn is still running, a transport that the connection
            # object does not hold yet may be open; it must be closed once the loop is quiescent)
            return "transport-open-at-quiescence", len(obs) - 1
        if timers:
            return f"timer-armed-at-quiescence:{timers[0]}", len(obs) - 1
        for t in ("start", "finish", "disc"):
            if d[t] == "pending":
                return f"task-blocked-at-quiescence:{t}", len(obs) - 1
    return None


def spec_c09(obs, lines, info):
    """every finished operation ended ok or with a library error; the fatal cause, once set, never changes"""
    fatal = None
    for i, o in enumerate(obs[1:], 1):
        d = parse(o)
        # the fatal cause every waiter observes is a library error unless the transport itself reported the loss with a foreign
        # exception (connection_lost(exc)): a failed write, a timeout, a bad frame are recorded as what they are
        if fatal in (None, "none") and d["fatal"] == "raw" and (lines[i] if i < len(lines) else "") != "cn.ev lost":
            return "raw-fatal-cause", i
        for t in ("start", "finish", "disc"):
            v = d[t]
            if v.startswith("raw") and not (v == "raw:CancelledError" and t in info.get("user_cancelled", ())):
                return f"raw-escape:{t}:{v}", i
        f = d["fatal"]
        if fatal is not None and fatal != "none" and f != fatal:
            return f"fatal-cause-replaced:{fatal}->{f}", i
        fatal = f
    if info["raw_escapes"]:
        return "raw-escape:" + info["raw_escapes"][0][0], len(obs) - 1
    # first cause wins: the first error reported as fatal is the one kept (unless an earlier cause had been recorded
    # without a report: then that one is kept) - never nothing
    fr = info.get("first_reported")
    if fr is not None and fatal == "none":
        return f"first-cause-dropped:{fr}", len(obs) - 1
    if info.get("hang"):
        return info["hang"], len(obs) - 1
    return None
