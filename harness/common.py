"""Shared machinery of the check runner: paths, lake build, audit, driver I/O, verdicts, evidence.

Run with /venv/bin/python (imports aioesphomeapi from /repo's working tree).
"""
from __future__ import annotations

import hashlib
import json
import os
import random
import re
import subprocess
import sys
import time
from pathlib import Path

VERIF = Path(__file__).resolve().parent.parent
LEAN = VERIF / "lean"
REPO = Path(os.environ.get("VERIF_REPO", "/repo"))
DRIVER = LEAN / ".lake" / "build" / "bin" / "driver"
EVIDENCE = VERIF / "evidence"
REPLAYS = VERIF / "replays"
KNOWN = VERIF / "known_findings.json"
GUARD = "AIOESPHOMEAPI_VERIF"

ALLOWED_AXIOMS = {"propext", "Classical.choice", "Quot.sound"}
FORBIDDEN = re.compile(
    r"\bsorry\b|\badmit\b|^\s*axiom\s|native_decide|bv_decide|implemented_by|\bunsafe\s|maxHeartbeats\s+0|\bpartial\s+def\b"
)

os.environ.setdefault(GUARD, "1")
import logging as _logging

_logging.disable(_logging.CRITICAL)  # the library logs every injected fault; the checks read state, not logs


def seed() -> int:
    try:
        return int(os.environ.get("VERIF_SEED", "0"))
    except ValueError:
        return 0


def _clean(s: str) -> str:
    return "\n".join(l for l in s.splitlines() if "conda.cli" not in l)


def sh(cmd, cwd=None, timeout=None, input=None):
    p = subprocess.run(cmd, cwd=cwd, capture_output=True, text=True, timeout=timeout, input=input)
    return p.returncode, _clean(p.stdout), _clean(p.stderr)


# ---------------------------------------------------------------------------
# prover side


def lake_build(targets: list[str]) -> tuple[bool, str]:
    """lake build of the given targets (incremental).  lake serialises concurrent builds itself."""
    last = ""
    for attempt in range(3):
        rc, out, err = sh(["lake", "build", *targets], cwd=LEAN, timeout=3000)
        last = out + err
        if rc == 0:
            return True, last
        # another lake process may hold the lock briefly / have replaced a file under us
        if "lock" in last.lower() and attempt < 2:
            time.sleep(2)
            continue
        break
    return False, last


def audit(modules: list[str]) -> tuple[list[dict], list[str]]:
    """Enumerate theorems of the compiled modules with their axioms. Returns (theorems, problems)."""
    rc, out, err = sh(["lake", "env", "lean", "--run", "Audit.lean", *modules], cwd=LEAN, timeout=600)
    thms, problems = [], []
    for line in out.splitlines():
        line = line.strip()
        if not line.startswith("{"):
            continue
        d = json.loads(line)
        if d.get("axiom_decl"):
            problems.append(f"user axiom declared: {d['name']}")
            continue
        thms.append(d)
        extra = set(d["axioms"]) - ALLOWED_AXIOMS
        if extra:
            problems.append(f"theorem {d['name']} depends on axioms {sorted(extra)}")
    if rc != 0 and not problems:
        problems.append("audit failed: " + (err or out)[-400:])
    return thms, problems


def strip_comments(src: str) -> str:
    # remove /- ... -/ (nested not handled beyond one level, good enough) and -- comments
    out, i, depth = [], 0, 0
    while i < len(src):
        if src.startswith("/-", i):
            depth += 1
            i += 2
        elif src.startswith("-/", i) and depth:
            depth -= 1
            i += 2
        elif depth:
            if src[i] == "\n":
                out.append("\n")
            i += 1
        elif src.startswith("--", i):
            while i < len(src) and src[i] != "\n":
                i += 1
        else:
            out.append(src[i])
            i += 1
    return "".join(out)


def grep_forbidden() -> list[str]:
    hits = []
    for p in sorted((LEAN / "Esp").rglob("*.lean")):
        code = strip_comments(p.read_text())
        for n, line in enumerate(code.splitlines(), 1):
            if FORBIDDEN.search(line):
                hits.append(f"{p.relative_to(LEAN)}:{n}: {line.strip()[:100]}")
    return hits


# ---------------------------------------------------------------------------
# model side (line protocol)


def phash(b: bytes) -> int:
    h = 7
    for x in b:
        h = (h * 257 + x + 1) % 2305843009213693951
    return h


def hx(b: bytes) -> str:
    return b.hex() if b else "-"


class LibraryMisbehaved(Exception):
    """raised by harness helpers when the implementation fails something every scenario of a check relies on (a plain session
    cannot be established, a command writes no frame or two, the client's noise hello is malformed, …): a concrete failing
    execution, reported as a violation by check.py - unlike a fault of the harness itself (exit 2)"""

    def __init__(self, key, what, detail=None):
        super().__init__(what)
        self.key, self.what, self.detail = key, what, detail or {}


_debug_counter = [0]


def debug_flip(every: int = 3) -> bool:
    """True for every `every`-th call: benches construct that share of their connections / clients with debug logging
    enabled (the log output itself is disabled process-wide; what changes is the `if debug_enabled:` code paths)"""
    _debug_counter[0] += 1
    return _debug_counter[0] % every == 0


_addr_counter = [0]
ADDRESS_FORMS = (["10.0.0.1"], ["verif-device.local"], ["verif-device"], ["10.0.0.1", "verif-device.local"],
                 ["verif-device.example.org"], ["fe80::1"], ["verif-device.local", "other"])


def address_form() -> list[str]:
    """the configured address list, rotated over its forms (IP literal, .local name, bare name, DNS name, several): the
    benches answer the resolver themselves, so the form only matters where the client code looks at it"""
    _addr_counter[0] += 1
    return list(ADDRESS_FORMS[_addr_counter[0] % len(ADDRESS_FORMS)])


def run_driver(lines: list[str], timeout=1200) -> list[str] | None:
    """Pipe operation lines to the compiled Lean driver; one output line per input line.
    None = there is no driver (it did not build: a broken obligation, handled by the caller).  A driver that exists but
    dies or answers with the wrong number of lines is a fault of the machinery, not a verdict: retried once (the binary
    may just have been replaced by a concurrent build), then raised (exit 2)."""
    if not DRIVER.exists():
        return None
    if not lines:
        return []          # an empty batch (a check that stopped early after enough violations leaves some)
    why = ""
    for attempt in range(2):
        try:
            p = subprocess.run([str(DRIVER)], input="\n".join(lines) + "\n", capture_output=True, text=True, timeout=timeout)
        except OSError as exc:   # e.g. "Text file busy" while lake replaces the binary
            why = repr(exc)
            time.sleep(3)
            continue
        out = p.stdout.splitlines()
        if p.returncode == 0 and len(out) == len(lines):
            return out
        why = f"exit {p.returncode}, {len(out)} lines for {len(lines)} operations, stderr {p.stderr[-300:]!r}"
        time.sleep(3)
    raise RuntimeError("Lean driver failed at run time: " + why)


def run_driver_parallel(batches: list[list[str]], workers=None) -> list[list[str] | None]:
    from concurrent.futures import ThreadPoolExecutor

    workers = workers or min(16, os.cpu_count() or 4)
    with ThreadPoolExecutor(max_workers=workers) as ex:
        return list(ex.map(run_driver, batches))


# ---------------------------------------------------------------------------
# verdicts


class Violation:
    def __init__(self, key: str, what: str, replay: dict, kind: str = "input"):
        self.key = key  # stable identity of the failing input / call site (matches known_findings)
        self.what = what
        self.replay = replay
        self.kind = kind  # "input" | "scenario" | "obligation"


def load_known() -> list[dict]:
    if KNOWN.exists():
        return json.loads(KNOWN.read_text())["findings"]
    return []


class Check:
    """Accumulates the outcome of one property check and turns it into evidence + exit status."""

    def __init__(self, pid: str, tier: str):
        self.pid, self.tier, self.seed = pid, tier, seed()
        self.t0 = time.time()
        self.rng = random.Random(f"{pid}-{self.seed}")
        self.violations: list[Violation] = []
        self.proof_problems: list[str] = []
        self.corr_problems: list[dict] = []  # model != implementation, spec not (yet) shown violated
        self.theorems: list[dict] = []
        self.coverage: dict = {}
        self.assumptions: list[str] = []
        self.modules: list[str] = []
        self.driver_ok = False
        self.notes: list[str] = []

    # -- prover ----------------------------------------------------------
    def prove(self, modules: list[str]) -> bool:
        self.modules = modules
        ok, log = lake_build(modules + ["driver"])
        if not ok:
            # try the driver alone so the correspondence can still run
            ok_d, _ = lake_build(["driver"])
            self.driver_ok = ok_d and DRIVER.exists()
            errs = [l for l in log.splitlines() if l.startswith("error:")][:8]
            self.proof_problems.append("lake build failed for " + ",".join(modules) + ": " + " | ".join(errs))
            return False
        self.driver_ok = DRIVER.exists()
        thms, problems = audit(modules)
        self.theorems = thms
        self.proof_problems += problems
        hits = grep_forbidden()
        if hits:
            self.proof_problems.append("forbidden tokens: " + "; ".join(hits[:5]))
        if not thms:
            self.proof_problems.append("no theorems found in " + ",".join(modules))
        if self.tier == "thorough" and not self.proof_problems:
            self.recheck(modules)
        return not self.proof_problems

    def recheck(self, modules: list[str]):
        """thorough tier: replay the compiled declarations of the property's modules and of every Esp module they import
        through leanchecker (the toolchain's independent kernel re-check of .olean files)"""
        todo, seen = list(modules), []
        while todo:
            m = todo.pop()
            if m in seen:
                continue
            seen.append(m)
            src = LEAN / (m.replace(".", "/") + ".lean")
            if src.exists():
                for line in src.read_text().splitlines():
                    if line.startswith("import Esp."):
                        todo.append(line.split()[1])
        try:
            p = subprocess.run(["lake", "env", "leanchecker", *seen], cwd=LEAN, capture_output=True, text=True, timeout=1800)
            self.rechecked = {"modules": sorted(seen), "exit": p.returncode}
            if p.returncode != 0:
                self.proof_problems.append("leanchecker rejected: " + (p.stdout + p.stderr)[-400:])
        except subprocess.TimeoutExpired:
            self.proof_problems.append("leanchecker timed out")

    # -- results ---------------------------------------------------------
    def violation(self, key: str, what: str, replay: dict, kind="input"):
        if any(v.key == key for v in self.violations):
            return
        if len(self.violations) >= 12 and not any(k.get("key") == key for k in load_known()):
            self.more_violations = getattr(self, "more_violations", 0) + 1   # reported in the evidence, no further replay files
            return
        self.violations.append(Violation(key, what, replay, kind))

    def disagreement(self, what: str, detail: dict):
        if len(self.corr_problems) < 50:
            self.corr_problems.append({"what": what, **detail})

    def finish(self) -> int:
        EVIDENCE.mkdir(exist_ok=True)
        REPLAYS.mkdir(exist_ok=True)
        known = [k for k in load_known() if k.get("property") == self.pid and k.get("status") == "known"]
        lines, unlisted = [], 0
        for v in self.violations:
            match = next((k for k in known if k["key"] == v.key), None)
            if match:
                lines.append(f"KNOWN-FINDING: property={self.pid} {match['what']}")
                continue
            unlisted += 1
            path = self._write_replay(v.key, {"property": self.pid, "kind": v.kind, "key": v.key, "what": v.what,
                                              "seed": self.seed, "tier": self.tier, **v.replay})
            lines.append(f"VIOLATION property={self.pid} replay={path}")
        # a broken obligation or correspondence with no failing input found is still a violation
        if unlisted == 0 and (self.proof_problems or self.corr_problems):
            # known findings explain nothing here: they are matched on concrete inputs only
            path = self._write_replay(
                "obligation",
                {"property": self.pid, "kind": "obligation", "seed": self.seed, "tier": self.tier,
                 "broken_obligations": self.proof_problems, "broken_correspondence": self.corr_problems[:10],
                 "note": "no input was found on which the implementation falsifies the Lean spec; the named "
                         "theorem / correspondence no longer checks, so the property is no longer shown to hold"},
            )
            lines.append(f"VIOLATION property={self.pid} replay={path} no-failing-input-found")
            unlisted += 1
        n_thm = len(self.theorems)
        discharged = sum(1 for t in self.theorems if set(t["axioms"]) <= ALLOWED_AXIOMS) if not any(
            p.startswith("lake build failed") for p in self.proof_problems) else 0
        cov = {
            "obligations": max(n_thm, 1),
            "discharged": discharged if n_thm else 0,
            "checker_cmd": "cd lean && lake build " + " ".join(self.modules) + " && lake env lean --run Audit.lean " + " ".join(self.modules),
            "trusted_base": [
                "Lean 4.33.0 kernel",
                "axioms: subset of {propext, Classical.choice, Quot.sound} (audited per theorem this run)",
                "hand-written model tied to /repo by the correspondence run counted below",
            ],
            "theorems": sorted(t["name"] for t in self.theorems),
            "proof_problems": self.proof_problems,
            "correspondence_disagreements": len(self.corr_problems),
            **self.coverage,
        }
        if getattr(self, "rechecked", None):
            cov["leanchecker"] = self.rechecked
        ev = {
            "property_id": self.pid, "tier": self.tier, "seed": self.seed, "level": "proof",
            "coverage": cov, "assumptions": self.assumptions, "wall_s": round(time.time() - self.t0, 2),
            "violations": unlisted, "known_findings_hit": [l for l in lines if l.startswith("KNOWN")],
            "notes": self.notes,
        }
        (EVIDENCE / f"{self.pid}.json").write_text(json.dumps(ev, indent=1, default=str) + "\n")
        for l in lines:
            print(l)
        print(f"[{self.pid}] tier={self.tier} seed={self.seed} theorems={n_thm} discharged={discharged} "
              f"evaluations={cov.get('evaluations')} disagreements={len(self.corr_problems)} "
              f"violations={unlisted} wall={ev['wall_s']}s")
        return 1 if unlisted else 0

    def _write_replay(self, key: str, body: dict) -> str:
        h = hashlib.sha1((self.pid + key).encode()).hexdigest()[:10]
        path = REPLAYS / f"{self.pid}-{h}.json"
        path.write_text(json.dumps(body, indent=1, default=str) + "\n")
        return str(path.relative_to(VERIF))
