"""An independent Noise_NNpsk0_25519_ChaChaPoly_SHA256 responder (the simulated device).

Uses noiseprotocol's *stock* DefaultNoiseBackend for the handshake (not the client's
ESPHomeNoiseBackend / reusable cipher) and `cryptography`'s ChaCha20Poly1305 directly for the
transport phase, with the Noise nonce layout written from the spec (4 zero bytes || LE64 counter),
not the client's PACK_NONCE.  Also produces the *symbolic twin* of every frame for the Lean model.
"""
from __future__ import annotations

import base64
import os

from cryptography.exceptions import InvalidTag
from cryptography.hazmat.primitives.ciphers.aead import ChaCha20Poly1305
from noise.connection import NoiseConnection

PROLOGUE = b"NoiseAPIInit\x00\x00"
MAC_FAILURE = b"Handshake MAC failure"


def nonce_bytes(n: int) -> bytes:
    return b"\x00\x00\x00\x00" + n.to_bytes(8, "little")


def sym_tag(n: int, length: int) -> bytes:
    return b"\xa5\x5a" + (n % 2**64).to_bytes(8, "big") + (length % 2**32).to_bytes(4, "big") + b"\x01\xc3"


def sym_enc(n: int, m: bytes) -> bytes:
    return sym_tag(n, len(m)) + m


def frame(body: bytes) -> bytes:
    return b"\x01" + len(body).to_bytes(2, "big") + body


def inner(t: int, payload: bytes, declared_len=None) -> bytes:
    dl = len(payload) if declared_len is None else declared_len
    return t.to_bytes(2, "big") + (dl & 0xFFFF).to_bytes(2, "big") + payload


class NoiseDevice:
    def __init__(self, psk: bytes, name: bytes | None = b"dev"):
        self.psk, self.name = psk, name
        self.proto = NoiseConnection.from_name(b"Noise_NNpsk0_25519_ChaChaPoly_SHA256")
        self.proto.set_as_responder()
        self.proto.set_psks(psk)
        self.proto.set_prologue(PROLOGUE)
        self.proto.start_handshake()
        self.send_n = 0  # next nonce for device -> client
        self.recv_n = 0  # next nonce for client -> device
        self.tx = self.rx = None
        self.hs_ok = None

    @staticmethod
    def b64(psk: bytes) -> str:
        return base64.b64encode(psk).decode()

    # -- handshake -----------------------------------------------------
    def hello_body(self) -> bytes:
        return b"\x01" + (self.name + b"\x00" if self.name is not None else b"")

    def read_client_hello(self, data: bytes) -> bool:
        """data = the client's first write (NOISE_HELLO + handshake frame). Returns True iff the
        client's handshake message authenticated under our psk."""
        import common
        if data[:3] != b"\x01\x00\x00" or data[3:4] != b"\x01":
            raise common.LibraryMisbehaved("malformed-noise-hello", f"the client's first write does not start with the empty hello frame and a "
                                           f"handshake frame: {bytes(data[:8]).hex()}")
        n = int.from_bytes(data[4:6], "big")
        body = data[6 : 6 + n]
        if len(body) != n or body[:1] != b"\x00":
            raise common.LibraryMisbehaved("malformed-noise-hello", f"the client's handshake frame announces {n} bytes, {len(body)} follow, first byte "
                                           f"{body[:1].hex()}")
        try:
            self.proto.read_message(body[1:])
            self.hs_ok = True
        except InvalidTag:
            self.hs_ok = False
        return self.hs_ok

    def handshake_body(self) -> bytes:
        if not self.hs_ok:
            return b"\x01" + MAC_FAILURE
        msg = self.proto.write_message()
        np_ = self.proto.noise_protocol
        self.tx = ChaCha20Poly1305(bytes(np_.cipher_state_encrypt.k))
        self.rx = ChaCha20Poly1305(bytes(np_.cipher_state_decrypt.k))
        return b"\x00" + msg

    # -- transport -----------------------------------------------------
    def seal(self, plaintext: bytes) -> tuple[bytes, bytes]:
        """(real ciphertext, symbolic twin) for the device's next frame"""
        n = self.send_n
        self.send_n += 1
        return self.tx.encrypt(nonce_bytes(n), plaintext, None), sym_enc(n, plaintext)

    def open_client_write(self, data: bytes):
        """Decode one client write independently: list of (type, payload) or raises ValueError.
        Also returns the symbolic twin of the write and the nonce range used."""
        pkts, twin, pos = [], b"", 0
        n0 = self.recv_n
        while pos < len(data):
            if data[pos] != 1:
                raise ValueError(f"marker {data[pos]} at {pos}")
            if pos + 3 > len(data):
                raise ValueError("truncated header")
            ln = int.from_bytes(data[pos + 1 : pos + 3], "big")
            body = data[pos + 3 : pos + 3 + ln]
            if len(body) != ln:
                raise ValueError("truncated frame")
            try:
                pt = self.rx.decrypt(nonce_bytes(self.recv_n), body, None)
            except InvalidTag:
                raise ValueError(f"frame does not open under nonce {self.recv_n}") from None
            if len(pt) < 4:
                raise ValueError("inner header missing")
            t = int.from_bytes(pt[0:2], "big")
            dl = int.from_bytes(pt[2:4], "big")
            if dl != len(pt) - 4:
                raise ValueError(f"inner length {dl} != {len(pt) - 4}")
            pkts.append((t, pt[4:]))
            twin += frame(sym_enc(self.recv_n, pt))
            self.recv_n += 1
            pos += 3 + ln
        return pkts, twin, n0


def new_psk(rng) -> bytes:
    return bytes(rng.randrange(256) for _ in range(32))
