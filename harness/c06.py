"""C06 — sessions only with a compatible, correctly named, authenticated device.

implementation : APIClient.connect through the real connect path over SimNet (plaintext), the device answering
                 HelloResponse / ConnectResponse with swept contents, order and chunking
model          : Conn.judge + versionOk + nameOk via the Lean driver (`cn.judge`): accept / the specific error
spec (on impl) : accepted  <=> major <= 2 and (no expected name or device name empty or equal) and (no login or password
                 not flagged) [for in-order responses]; a rejection raises exactly: incompatible version -> the base
                 APIConnectionError, name -> BadNameAPIError carrying the received name, password -> InvalidAuthAPIError;
                 in every rejecting run the connection ends closed and the stop callback is not invoked
Noise sessions (the ServerHello name AND the HelloResponse name are both checked) are driven with a from-spec responder
and judged by the same oracle; the noise-hello name check itself is also C03's (c03_name) / C04's (badName class).
"""
from __future__ import annotations

import itertools

from aioesphomeapi import APIClient, api_pb2 as pb
from aioesphomeapi import core
import aioesphomeapi.connection as ac

from common import Check, run_driver_parallel
import fh
import simnet

EXPECTED = "living-room"
NAMES = ["", EXPECTED, "kitchen", "living", "Living-Room", "living-room ", "wohnzimmer-ü", EXPECTED + "x"]
MAJORS = [0, 1, 2, 3, 4, 2**32 - 1]
MINORS = [0, 9, 10, 2**32 - 1]


def run_one(major, minor, name, expected, login, password, invalid, order, cuts, hangup=None):
    net = simnet.Net()
    loop = net.loop
    net.auto_resolve = net.auto_sock = True
    client = APIClient("10.0.0.1", 6053, password, expected_name=expected)
    stops = []

    async def on_stop(e):
        stops.append(e)

    o = simnet.spawn(loop, client.connect(on_stop=on_stop, login=login), "connect")
    loop.run_idle()
    conn = client._connection
    hello = simnet.plain_frame(pb.HelloResponse(api_version_major=major, api_version_minor=minor, name=name, server_info="x"))
    cresp = simnet.plain_frame(pb.ConnectResponse(invalid_password=invalid))
    frames = {"h": [hello], "hc": [hello, cresp], "ch": [cresp, hello], "c": [cresp], "hhc": [hello, hello, cresp]}[order]
    stream = b"".join(frames)
    if hangup == "discreq":
        # the device asks to disconnect in the same read as its answer (no session exists: the stop callback stays silent)
        stream += simnet.plain_frame(pb.DisconnectRequest())
    pts = [0] + sorted(set(c for c in cuts if 0 < c < len(stream))) + [len(stream)]
    for a, b in zip(pts, pts[1:]):
        net.feed(stream[a:b])
        if hangup in ("eof", "reset") and b == len(stream):
            # the device hangs up right after its answer (what a device does after rejecting a password): the last chunk and
            # the end of the connection reach the client in the same loop turn, before the connect task resumes
            net.eof() if hangup == "eof" else net.reset()
        loop.run_idle()
    # a device that stays silent afterwards: let the hello/login timeout decide
    if not o.done:
        loop.advance(31.0)
    res = o.cls()
    res = res if res in ("ok", "pending") or res.startswith("raw") else "err:" + res
    exc = o.task.exception() if o.task.done() and not o.task.cancelled() else None
    rname = getattr(exc, "received_name", None)
    state = conn.connection_state if conn is not None else None
    info = {"state": connstate(conn), "stops": list(stops), "received_name": rname,
            "client_conn_cleared": client._connection is None, "exc_type": type(exc).__name__ if exc else None}
    net.close()
    return res, info


PSK = bytes(range(32))


def run_one_noise(major, name, server_name, expected, login, password, invalid):
    """the same question over an encrypted session: a from-spec responder (noisedev) completes the handshake, announcing
    `server_name` (None = an old device that sends none) in its ServerHello, then answers HelloResponse / ConnectResponse"""
    import noisedev

    net = simnet.Net()
    loop = net.loop
    net.auto_resolve = net.auto_sock = True
    client = APIClient("10.0.0.1", 6053, password, expected_name=expected, noise_psk=noisedev.NoiseDevice.b64(PSK))
    stops = []

    async def on_stop(e):
        stops.append(e)

    o = simnet.spawn(loop, client.connect(on_stop=on_stop, login=login), "connect")
    loop.run_idle()
    conn = client._connection
    dev = noisedev.NoiseDevice(PSK, server_name.encode() if server_name is not None else None)
    first = b"".join(d for _, d in net.tr.writes)
    dev.read_client_hello(first)
    net.feed(noisedev.frame(dev.hello_body()) + noisedev.frame(dev.handshake_body()))
    loop.run_idle()
    if not o.done:
        hello = pb.HelloResponse(api_version_major=major, api_version_minor=10, name=name, server_info="x").SerializeToString()
        cresp = pb.ConnectResponse(invalid_password=invalid).SerializeToString()
        net.feed(noisedev.frame(dev.seal(noisedev.inner(2, hello))[0]) + noisedev.frame(dev.seal(noisedev.inner(4, cresp))[0]))
        loop.run_idle()
    if not o.done:
        loop.advance(31.0)
    res = o.cls()
    res = res if res in ("ok", "pending") or res.startswith("raw") else "err:" + res
    exc = o.task.exception() if o.task.done() and not o.task.cancelled() else None
    info = {"state": connstate(conn), "stops": list(stops), "received_name": getattr(exc, "received_name", None),
            "exc_type": type(exc).__name__ if exc else None}
    net.close()
    return res, info


def noise_cases(ck: Check):
    rng, thorough = ck.rng, ck.tier == "thorough"
    servers = [None, EXPECTED, "kitchen", ""]
    hnames = ["", EXPECTED, "kitchen", EXPECTED + "x"]
    base = list(itertools.product([1, 2, 3], hnames, servers, [None, EXPECTED], [False, True], [False, True]))
    if not thorough:
        rng.shuffle(base)
        base = base[:150]
    n = 0
    mlines, mimpl, mreps = [], [], []

    def hx(x):
        return "-" if x is None else ("e" if x == "" else x.encode().hex())

    for major, name, server_name, expected, login, invalid in base:
        password = rng.choice([None, "secret"])
        res, info = run_one_noise(major, name, server_name, expected, login, password, invalid)
        n += 1
        mlines.append(f"cn.session 1 {hx(server_name)} {hx(expected)} {int(login)} {major} {hx(name)} {int(invalid)}")
        bad_server = (res == "err:badName" and expected is not None and server_name is not None and server_name != expected
                      and info["received_name"] == server_name)
        mimpl.append("accept" if res == "ok" else ("err:badServerName" if bad_server else res))
        mreps.append({"noise": True, "major": major, "name": name, "server_hello_name": server_name, "expected": expected,
                      "login": login, "invalid_password": invalid, "observed": res})
        rep = {"noise": True, "major": major, "name": name, "server_hello_name": server_name, "expected": expected, "login": login,
               "invalid_password": invalid, "observed": res, "info": {k: str(v) for k, v in info.items()}}
        # the ServerHello name, when announced (even an empty one: C03 "accepted iff no expected name is configured or the
        # names are equal") and an expected name is configured, must match already
        if expected is not None and server_name is not None and server_name != expected:
            if not (res == "err:badName" and info["received_name"] == server_name):
                ck.violation("c06:noise-hello-name", f"noise ServerHello announced {server_name!r}, expected {expected!r}: observed "
                             f"{res} received_name={info['received_name']!r}", rep)
            continue
        name_ok = (name == "") or expected is None or name == expected
        should_accept = major <= 2 and name_ok and (not login or not invalid)
        bad = None
        if should_accept != (res == "ok"):
            bad = f"accept-mismatch: should_accept={should_accept} observed={res}"
        elif not should_accept:
            if major > 2:
                if not (res == "err:base" and info["exc_type"] == "APIConnectionError"):
                    bad = f"incompatible version reported as {res}/{info['exc_type']}"
            elif not name_ok:
                if not (res == "err:badName" and info["received_name"] == name):
                    bad = f"bad name reported as {res} received_name={info['received_name']!r}"
            elif res != "err:invalidAuth":
                bad = f"invalid password reported as {res}"
            if bad is None and (info["state"] != "closed" or info["stops"]):
                bad = f"rejected but state={info['state']} stops={info['stops']}"
        if bad:
            ck.violation("c06:noise:" + bad.split(":")[0].split(" ")[0], "C06 violated on the implementation (noise session): " + bad, rep)
    # model (Conn.judgeSession) vs implementation on the same noise sessions
    from common import run_driver
    out = run_driver(mlines)
    if out is None:
        ck.disagreement("driver unavailable", {})
    else:
        for l, m, o, rep in zip(mlines, out, mimpl, mreps):
            if m != o:
                ck.disagreement("noise session verdict: model != implementation", {**rep, "op": l, "model": m, "impl": o})
    return n


def connstate(conn):
    if conn is None:
        return "none"
    return {ac.CONNECTION_STATE_CLOSED: "closed", ac.CONNECTION_STATE_CONNECTED: "connected"}.get(conn.connection_state, "other")


def run(ck: Check):
    rng, thorough = ck.rng, ck.tier == "thorough"
    cases = []
    base = list(itertools.product(MAJORS, MINORS, NAMES, [None, EXPECTED], [False, True], [False, True]))
    if not thorough:
        rng.shuffle(base)
        base = base[:700]
    for major, minor, name, expected, login, invalid in base:
        password = rng.choice([None, "secret"])
        orders = ["h", "hc"] if not login else ["hc", "hc", "ch", "c", "hhc", "h"]
        order = rng.choice(orders) if not thorough else None
        for od in ([order] if order else orders):
            cut_modes = ["one", "each-frame", "bytes"] if thorough else [rng.choice(["one", "each-frame", "bytes", "random"])]
            for cm in cut_modes:
                cases.append((major, minor, name, expected, login, password, invalid, od, cm))
    cases = [c + (None,) for c in cases]
    # the same in-order exchanges with the device hanging up in the turn of its last answer
    for c in list(cases):
        if c[7] in ("h", "hc") and (c[7] == "hc" or not c[4]) and c[8] != "bytes" and (thorough or rng.random() < 0.35):
            cases.append(c[:9] + (rng.choice(["eof", "reset", "discreq"]),))
    lines, results = [], []
    dist = {"cases": len(cases), "accepted": 0, "version": 0, "badName": 0, "invalidAuth": 0, "other": 0, "orders": {},
            "hangups": sum(1 for c in cases if c[9])}
    for (major, minor, name, expected, login, password, invalid, od, cm, hang) in cases:
        if cm == "one":
            cuts = []
        elif cm == "bytes":
            cuts = list(range(1, 400))
        elif cm == "each-frame":
            cuts = [len(simnet.plain_frame(pb.HelloResponse(api_version_major=major, api_version_minor=minor, name=name, server_info="x")))]
        else:
            cuts = sorted(rng.sample(range(1, 60), 4))
        res, info = run_one(major, minor, name, expected, login, password, invalid, od, cuts, hang)
        results.append((res, info))
        # what the collector sees: the responses of the types it listens for, up to the first of the last expected type
        seq = {"h": ["h"], "hc": ["h", "c"], "ch": ["c", "h"], "c": ["c"], "hhc": ["h", "h", "c"]}[od]
        collected, stopped = [], False
        for k in seq:
            if k == "c" and not login:
                continue  # ConnectResponse is not listened for without login
            collected.append(k)
            if (k == "c") if login else (k == "h"):
                stopped = True
                break
        toks = [f"h:{major}:{name.encode().hex() or '-'}" if k == "h" else f"c:{1 if invalid else 0}" for k in collected]
        lines.append(f"cn.judge {1 if login else 0} {expected.encode().hex() if expected else '-'} " + " ".join(toks)
                     if stopped else "cn.judge-timeout")
        dist["orders"][od] = dist["orders"].get(od, 0) + 1
    outs = run_driver_parallel([[l if l != "cn.judge-timeout" else "cn.nop" for l in lines[i::16]] for i in range(16)])
    n = 0
    for i in range(16):
        out = outs[i]
        if out is None:
            ck.disagreement("driver failed", {})
            continue
        for j, m in enumerate(out):
            idx = i + 16 * j
            case = cases[idx]
            res, info = results[idx]
            major, minor, name, expected, login, password, invalid, od, cm, hang = case
            n += 1
            if hang and m == "accept":
                continue     # an accepted session that the device drops at once: either outcome of connect() is in order
            if lines[idx] == "cn.judge-timeout":
                want = "err:timeout"   # the stop response never came: the 30 s hello/login timer decides
            else:
                want = "ok" if m == "accept" else m
            rep = {"major": major, "minor": minor, "name": name, "expected": expected, "login": login, "password_set": password is not None,
                   "invalid_password": invalid, "order": od, "chunking": cm, "device_hangs_up_in_the_same_turn": hang, "observed": res,
                   "info": {k: str(v) for k, v in info.items()}}
            if res != want:
                ck.disagreement("hello/login verdict: model != implementation", {**rep, "model": want})
            # ---- spec on the implementation (in-order responses) -------------------------------------------------
            if od in ("h", "hc") and (od == "hc" or not login):
                name_ok = (name == "") or expected is None or name == expected
                should_accept = major <= 2 and name_ok and (not login or not invalid)
                bad = None
                if should_accept != (res == "ok"):
                    bad = f"accept-mismatch: should_accept={should_accept} observed={res}"
                elif not should_accept:
                    if major > 2:
                        if not (res == "err:base" and info["exc_type"] == "APIConnectionError"):
                            bad = f"incompatible version reported as {res}/{info['exc_type']}"
                    elif not name_ok:
                        if not (res == "err:badName" and info["received_name"] == name):
                            bad = f"bad name reported as {res} received_name={info['received_name']!r}"
                    elif res != "err:invalidAuth":
                        bad = f"invalid password reported as {res}"
                    if bad is None and (info["state"] != "closed" or info["stops"]):
                        bad = f"rejected but state={info['state']} stops={info['stops']}"
                if bad:
                    ck.violation("c06:" + bad.split(":")[0].split(" ")[0], "C06 violated on the implementation: " + bad, rep)
            elif res == "ok":
                # out-of-order / missing responses: a success means the hello was never checked
                ck.violation("c06:accepted-without-checked-hello",
                             f"connect succeeded although the responses were {od!r} (the HelloResponse was not the first "
                             f"collected response, so its version/name were not checked before completion)", rep)
            if res == "ok":
                dist["accepted"] += 1
            elif res == "err:base":
                dist["version"] += 1
            elif res == "err:badName":
                dist["badName"] += 1
            elif res == "err:invalidAuth":
                dist["invalidAuth"] += 1
            else:
                dist["other"] += 1
    n_noise = noise_cases(ck)
    dist["noise_sessions"] = n_noise
    ck.coverage.update({
        "evaluations": len(cases) + n_noise, "model_verdicts_compared": n,
        "distinct_nontrivial": len(set(cases)),
        "rule": "case = (major, minor, device name, expected name set/unset, login, password set/unset, password verdict, "
                "response order incl. wrong orders and a missing stop response, chunking); distinct by that tuple",
        "traces_validated_against_impl": len(cases),
        "samples": [dict(zip(["major", "minor", "name", "expected", "login", "password", "invalid", "order", "chunking"], c))
                    for c in cases[:3]],
        "distribution": dist, "exhaustive": thorough,
    })
    ck.assumptions += ["noise sessions: a from-spec responder (ServerHello name absent / empty / right / wrong x HelloResponse name x "
                       "version x login); verdicts compared with Conn.judgeSession and judged by the oracle",
                       "the device stays silent after the swept responses; virtual time runs to the 30 s hello/login timeout"]
