"""Random / boundary protobuf message construction from descriptors (used by several checks)."""
from __future__ import annotations

import struct

from google.protobuf.descriptor import FieldDescriptor as FD

INT_BOUNDS = {
    FD.TYPE_UINT32: [0, 1, 127, 128, 2**31 - 1, 2**32 - 1],
    FD.TYPE_FIXED32: [0, 1, 2**32 - 1],
    FD.TYPE_UINT64: [0, 1, 2**32, 2**64 - 1],
    FD.TYPE_FIXED64: [0, 1, 2**64 - 1],
    FD.TYPE_INT32: [0, 1, -1, 2**31 - 1, -(2**31)],
    FD.TYPE_SINT32: [0, 1, -1, 2**31 - 1, -(2**31)],
    FD.TYPE_SFIXED32: [0, 1, -1, 2**31 - 1, -(2**31)],
    FD.TYPE_INT64: [0, 1, -1, 2**63 - 1, -(2**63)],
    FD.TYPE_SINT64: [0, 1, -1, 2**63 - 1, -(2**63)],
    FD.TYPE_SFIXED64: [0, 1, -1, 2**63 - 1, -(2**63)],
}
STRINGS = ["", "a", "living room", "ünïcödé ✓", "x" * 40, "0", " "]


def f32(rng):
    """a random finite float32 value (as Python float)"""
    while True:
        bits = rng.getrandbits(32)
        v = struct.unpack("<f", struct.pack("<I", bits))[0]
        if v == v and abs(v) != float("inf"):
            return v


def scalar(fd, rng, size_hint=None):
    t = fd.type
    if t in INT_BOUNDS:
        return rng.choice(INT_BOUNDS[t])
    if t == FD.TYPE_BOOL:
        return rng.random() < 0.5
    if t == FD.TYPE_STRING:
        if size_hint is not None:
            return "s" * size_hint
        return rng.choice(STRINGS)
    if t == FD.TYPE_BYTES:
        n = size_hint if size_hint is not None else rng.choice([0, 1, 5, 20])
        return bytes(rng.randrange(256) for _ in range(min(n, 64))) * (n // 64 + 1) if n > 64 else bytes(rng.randrange(256) for _ in range(n))
    if t == FD.TYPE_FLOAT:
        return rng.choice([0.0, 1.0, -1.5, 21.5, f32(rng), f32(rng)])
    if t == FD.TYPE_DOUBLE:
        return rng.choice([0.0, 1.0, -2.25, 1e100])
    if t == FD.TYPE_ENUM:
        nums = [v.number for v in fd.enum_type.values]
        return rng.choice(nums)
    raise NotImplementedError(fd.type)


def fill(msg, rng, p_set=0.7, depth=0):
    """populate msg in place with random field values"""
    for fd in msg.DESCRIPTOR.fields:
        if rng.random() > p_set and not (fd.name == "uuid" and fd.is_repeated):
            continue
        if fd.is_repeated and fd.name == "uuid" and fd.type == FD.TYPE_UINT64:
            # protocol contract: a 128-bit UUID is always sent as exactly [high, low]
            getattr(msg, fd.name).extend([rng.choice([0, 1, 2**64 - 1, rng.getrandbits(64)]), rng.getrandbits(64)])
            continue
        if fd.is_repeated:
            n = rng.choice([0, 1, 2, 3])
            for _ in range(n):
                if fd.type == FD.TYPE_MESSAGE:
                    if depth < 3:
                        fill(getattr(msg, fd.name).add(), rng, p_set, depth + 1)
                else:
                    getattr(msg, fd.name).append(scalar(fd, rng))
        elif fd.type == FD.TYPE_MESSAGE:
            if depth < 3:
                sub = getattr(msg, fd.name)
                sub.SetInParent()
                fill(sub, rng, p_set, depth + 1)
        else:
            setattr(msg, fd.name, scalar(fd, rng))
    return msg


def random_message(cls, rng, p_set=0.7):
    return fill(cls(), rng, p_set)


def sized_message(cls, target: int):
    """a message of class `cls` whose serialisation is exactly `target` bytes, if the class has a
    length-delimited scalar field; else None"""
    for fd in cls.DESCRIPTOR.fields:
        if not fd.is_repeated and fd.type in (FD.TYPE_BYTES, FD.TYPE_STRING):
            lo = max(0, target - 8)
            for n in range(lo, target + 1):
                m = cls()
                setattr(m, fd.name, ("s" * n) if fd.type == FD.TYPE_STRING else (b"\xab" * n))
                if len(m.SerializeToString()) == target:
                    return m
    return None
