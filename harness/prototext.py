"""A small tokenizer/parser for api.proto / api_options.proto *text* (no protobuf import).

Returns messages (name, id option, source option, fields) and enums (name -> [(member, number)]).
"That the compiled descriptors agree with the .proto text" is part of C13, so this must not use
the compiled module.
"""
from __future__ import annotations

import re
from pathlib import Path

TOKEN = re.compile(r'"(?:[^"\\]|\\.)*"|[A-Za-z_][A-Za-z0-9_.]*|-?\d+|[{}()\[\]=;,<>]')


def strip_comments(src: str) -> str:
    src = re.sub(r"/\*.*?\*/", " ", src, flags=re.S)
    out = []
    for line in src.splitlines():
        # no string literal in these files contains '//'
        i = line.find("//")
        out.append(line if i < 0 else line[:i])
    return "\n".join(out)


class P:
    def __init__(self, toks):
        self.t, self.i = toks, 0

    def peek(self):
        return self.t[self.i] if self.i < len(self.t) else None

    def next(self):
        x = self.t[self.i]
        self.i += 1
        return x

    def expect(self, x):
        y = self.next()
        if y != x:
            raise ValueError(f"expected {x!r} got {y!r} at token {self.i}")

    def skip_block(self):
        depth = 0
        while True:
            x = self.next()
            if x == "{":
                depth += 1
            elif x == "}":
                depth -= 1
                if depth == 0:
                    return

    def skip_stmt(self):
        while self.next() != ";":
            pass


def parse(path: Path):
    p = P(TOKEN.findall(strip_comments(path.read_text())))
    messages, enums = [], {}
    while p.peek() is not None:
        x = p.next()
        if x in ("syntax", "import", "package"):
            p.skip_stmt()
        elif x in ("service", "extend"):
            p.next()
            p.skip_block()
        elif x == "enum":
            name = p.next()
            p.expect("{")
            members = []
            while p.peek() != "}":
                m = p.next()
                if m == "option":
                    p.skip_stmt()
                    continue
                p.expect("=")
                num = int(p.next())
                if p.peek() == "[":
                    while p.next() != "]":
                        pass
                p.expect(";")
                members.append((m, num))
            p.expect("}")
            enums[name] = members
        elif x == "message":
            name = p.next()
            p.expect("{")
            msg = {"name": name, "id": None, "source": "SOURCE_BOTH", "fields": []}
            while p.peek() != "}":
                t = p.next()
                if t == "option":
                    p.expect("(")
                    opt = p.next()
                    p.expect(")")
                    p.expect("=")
                    val = p.next()
                    p.expect(";")
                    if opt == "id":
                        msg["id"] = int(val)
                    elif opt == "source":
                        msg["source"] = val
                    continue
                if t == "reserved":
                    p.skip_stmt()
                    continue
                label = None
                if t in ("repeated", "optional", "required"):
                    label = t
                    t = p.next()
                ftype = t
                fname = p.next()
                p.expect("=")
                num = int(p.next())
                if p.peek() == "[":
                    while p.next() != "]":
                        pass
                p.expect(";")
                msg["fields"].append({"name": fname, "number": num, "type": ftype, "repeated": label == "repeated"})
            p.expect("}")
            messages.append(msg)
        elif x == ";":
            continue
        else:
            raise ValueError(f"unexpected top-level token {x!r}")
    return messages, enums


def load(repo: Path):
    return parse(repo / "aioesphomeapi" / "api.proto")


if __name__ == "__main__":
    import sys

    msgs, enums = load(Path(sys.argv[1] if len(sys.argv) > 1 else "/repo"))
    print(len(msgs), "messages,", sum(1 for m in msgs if m["id"] is not None), "with id,", len(enums), "enums")
    print(msgs[1])
