"""C03 — noise interoperability with an independent conformant responder, for any chunking.

implementation : APINoiseFrameHelper (real code) fed real bytes from harness/noisedev.NoiseDevice
model          : Esp.Noise.feed (Lean driver) fed the symbolic twin of the same stream, same cuts
spec           : c03_interop / c03_no_early / c03_name — ready exactly when the handshake frame
                 completes, then exactly the device's messages, each in the chunk that completes it;
                 name accepted iff no expectation or equal
"""
from __future__ import annotations

import itertools

import noise_bench as nb
import noisedev
from common import Check, phash, run_driver_parallel

NAMES = [b"dev", None, b"", "küche".encode(), b"a" * 40]


def spec_expected(session: nb.Session, cuts, total_len):
    """per-chunk expected event lists for a conformant session with an acceptable name"""
    ends, pos = [], 0
    for f in session.frames:
        pos += 3 + len(f.real)
        ends.append(pos)
    pts = [*cuts, total_len]
    out, i = [], 0
    for p in pts:
        ev = []
        while i < len(ends) and ends[i] <= p:
            f = session.frames[i]
            if f.kind == "hs":
                ev.append("ready")
            elif f.kind == "data":
                t, pl = f.msg
                ev.append(f"d:{t}:{len(pl)}:{phash(pl)}")
            i += 1
        out.append(ev)
    return out


def gen(ck: Check):
    rng, thorough = ck.rng, ck.tier == "thorough"
    cases = []  # (name, expected, msgs, cuts_spec)
    n_sessions = 60 if thorough else 14
    for si in range(n_sessions):
        name = NAMES[si % len(NAMES)]
        mode = si % 4
        if name is None:
            expected = [None, "other", None, "dev"][mode]
        else:
            nm = name.decode()
            expected = [None, nm, nm + "x", None][mode]
        k = rng.randint(0, 6)
        msgs = [(rng.choice([1, 7, 25, 123, 255, 256, 65535]), bytes(rng.randrange(256) for _ in range(rng.choice([0, 1, 3, 17, 200]))))
                for _ in range(k)]
        cases.append((name, expected, msgs))
    # the name rule on its own: "accepted iff no expected name is configured or the names are EQUAL" - near misses in both
    # directions (the announced name extends / is a prefix of / differs in case or whitespace from the expected one)
    for announced, exp in [(b"kitchen-2", "kitchen"), (b"kitchen2", "kitchen"), (b"kitchen", "kitchen-2"), (b"Kitchen", "kitchen"),
                           (b"kitchen ", "kitchen"), (b" kitchen", "kitchen"), (b"ab", "a"), (b"a", "ab"), (b"kitchen", "kitchen"),
                           (b"nehctik", "kitchen"), ("küche2".encode(), "küche"), (b"kitchen.local", "kitchen"), (b"", "kitchen")]:
        cases.append((announced, exp, [(7, b"")] if len(cases) % 2 else []))
    # frame lengths around every byte boundary of the 16-bit length field (frame = payload + 4 bytes of inner header +
    # 16 bytes of tag): 255/256, 32767/32768 (sign bit), 65535 (the largest the field can carry)
    big = [235, 236, 237, 32747, 32748, 40000, 65515] if thorough else [236, 32748, 65515]
    for j, n in enumerate(big):
        body = bytes((i * 31 + n) % 251 for i in range(n))
        cases.append((NAMES[j % len(NAMES)], None, [(7, b"x"), (rng.choice([1, 300]), body), (25, b"tail")]))
    return cases


def cut_patterns(ck: Check, session: nb.Session, L: int):
    rng, thorough = ck.rng, ck.tier == "thorough"
    bounds, pos = [], 0
    for f in session.frames:
        pos += 3 + len(f.real)
        bounds.append(pos)
    if L > 5000:
        # a session with a huge frame: every pattern costs a pass over the whole stream on both sides; keep the cuts that
        # matter - one chunk, MTU-sized chunks, frame aligned, single cuts around every frame boundary and header byte
        pats = [(), tuple(range(1460, L, 1460)), tuple(b for b in bounds if 0 < b < L)]
        near = sorted({c for b in bounds for c in (b - 1, b, b + 1, b + 2, b + 3, b + 4) if 0 < c < L})
        pats += [(c,) for c in near] + [(rng.randrange(1, L),) for _ in range(4)]
        if thorough:
            pats += [tuple(sorted(rng.sample(near, 2))) for _ in range(10)]
        return pats
    pats = [(), tuple(range(1, L))]  # one chunk; byte by byte
    singles = range(1, L) if (thorough or L < 260) else sorted(
        {c for b in bounds for c in range(b - 4, b + 5) if 0 < c < L} | set(range(1, 12)) | {rng.randrange(1, L) for _ in range(40)})
    pats += [(c,) for c in singles]
    near = sorted({c for b in bounds for c in (b - 1, b, b + 1, b + 3) if 0 < c < L})
    pairs = list(itertools.combinations(near, 2))
    rng.shuffle(pairs)
    pats += pairs[: (400 if thorough else 40)]
    pats.append(tuple(b for b in bounds if 0 < b < L))  # frame aligned
    for _ in range(30 if thorough else 6):
        kk = rng.randint(2, min(9, L - 1))
        pats.append(tuple(sorted(rng.sample(range(1, L), kk))))
    return pats


def run(ck: Check):
    cases = gen(ck)
    all_ops, all_obs, n_eval, distinct = [], [], 0, set()
    name_rule = {"accepted": 0, "rejected": 0}
    for name, expected, msgs in cases:
        probe, _, _ = nb.build_session(ck.rng, name=name, expected=expected, msgs=msgs)
        L = sum(3 + len(f.real) for f in probe.frames)
        accept = expected is None or name is None or name.decode() == expected
        for cuts in cut_patterns(ck, probe, L):
            # a fresh session per run (fresh keys): the client object is single-use
            s, bench, _ = nb.build_session(ck.rng, name=name, expected=expected, msgs=msgs)
            real = b"".join(f.wire() for f in s.frames)
            twin = b"".join(f.wire(True) for f in s.frames)
            assert len(real) == len(twin) == L
            ops, obs = nb.drive(bench, real, twin, cuts, expected)
            all_ops.append(ops)
            all_obs.append(obs)
            n_eval += 1
            distinct.add((name, expected, tuple((t, len(p)) for t, p in msgs), cuts))
            h, conn, tr = bench
            got = [o.split("] ")[0][3:].split(" ") if o.split("] ")[0][3:] else [] for o in obs[1:]]
            replay = {"name": None if name is None else name.hex(), "expected_name": expected,
                      "msgs": [[t, p.hex()] for t, p in msgs], "cuts": list(cuts), "observed": obs[1:]}
            if accept:
                name_rule["accepted"] += 1
                exp = spec_expected(s, cuts, L)
                if got != exp:
                    ck.violation(
                        f"noise-interop:{name}:{expected}:{[(t, len(p)) for t, p in msgs]}:{list(cuts)}",
                        f"conformant responder session: client events {got} differ from the spec {exp}",
                        {**replay, "expected_events": exp})
                elif nb.ready_state(h) != "ok" or tr.closed:
                    ck.violation(f"noise-interop-final:{name}:{expected}:{list(cuts)}",
                                 f"after a conformant session readiness is {nb.ready_state(h)}, transport closed={tr.closed}", replay)
            else:
                name_rule["rejected"] += 1
                flat = sum(got, [])
                want = "f:badName:" + (name.hex() if name else "-")
                if any(e.startswith("d:") or e == "ready" for e in flat) or want not in flat or not tr.closed:
                    ck.violation(f"noise-name-rule:{name}:{expected}:{list(cuts)}",
                                 f"hello announcing {name!r} with expected name {expected!r} must be rejected with bad-name; got {flat}",
                                 replay)
    dis = 0
    if ck.driver_ok:
        nbk = 16
        batches = [sum(all_ops[i::nbk], []) for i in range(nbk)]
        outs = run_driver_parallel(batches)
        for b in range(nbk):
            exp_lines = sum(all_obs[b::nbk], [])
            if outs[b] is None:
                ck.disagreement("driver failed", {"batch": b})
                continue
            for op, m, o in zip(batches[b], outs[b], exp_lines):
                if nb.strip_phase(m) != o:
                    dis += 1
                    ck.disagreement("noise.feed: model != implementation", {"op": op[:160], "model": nb.strip_phase(m)[:300], "impl": o[:300]})
                    break
    else:
        ck.disagreement("Lean driver unavailable (build failed): model not executed", {})
    ck.coverage.update({
        "evaluations": n_eval,
        "distinct_nontrivial": len([d for d in distinct if d[3]]),
        "rule": "case = (announced name, expected name, message list, cut positions) on a fresh key; distinct by that "
                "tuple; non-trivial = at least one cut",
        "traces_validated_against_impl": n_eval if ck.driver_ok else 0,
        "disagreements_checked": dis,
        "name_rule": name_rule,
        "samples": [{"ops": o[:3], "obs": b[:3]} for o, b in list(zip(all_ops, all_obs))[:: max(1, len(all_ops) // 3)][:3]],
    })
    ck.assumptions += [
        "the Noise handshake mathematics is noiseprotocol's; the model sees it through the oracle hs",
        "responder = noiseprotocol stock backend + cryptography ChaCha20Poly1305 with the spec nonce layout",
    ]
