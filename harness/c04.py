"""C04 — fail closed with the specific error; no forged delivery.

Fault catalogue over device sessions (see DESIGN §5 C04): every single-frame corruption, every
handshake-phase deviation, both framing mismatches, key strings.
spec  : delivered messages are a byte-exact prefix of what the device sent; the first complete
        offending frame closes the transport with the expected error class, which a pending
        readiness wait also receives; nothing is delivered afterwards
model : Esp.Noise via the Lean driver on the symbolic twin with the same faults
"""
from __future__ import annotations

import base64
import binascii

from aioesphomeapi import core
from aioesphomeapi._frame_helper.noise import APINoiseFrameHelper
from cryptography.hazmat.primitives.ciphers.aead import ChaCha20Poly1305

import fh
import noise_bench as nb
import noisedev
from common import Check, hx, phash, run_driver_parallel

MAC = b"Handshake MAC failure"


def flip(b: bytes, pos: int) -> bytes:
    return b[:pos] + bytes([b[pos] ^ 0x5A]) + b[pos + 1 :]


def twin_invalid(t: bytes) -> bytes:
    # any change to a real ciphertext invalidates it: clear the twin's "valid" byte
    return t[:14] + b"\x00" + t[15:] if len(t) >= 16 else t


def base(ck, n_msgs, name=b"dev", expected=None):
    rng = ck.rng
    msgs = [(rng.choice([1, 7, 60, 255, 300]), bytes(rng.randrange(256) for _ in range(rng.choice([0, 2, 9, 40]))))
            for _ in range(n_msgs)]
    s, bench, dev = nb.build_session(rng, name=name, expected=expected, msgs=msgs)
    return s, bench, dev, msgs


def data_fault_labels(ck, s, thorough):
    rng = ck.rng
    F = s.frames
    out = []
    for i in [i for i, f in enumerate(F) if f.kind == "data"]:
        n = len(F[i].real)
        positions = range(n) if thorough else sorted({0, 1, n // 2, n - 17, n - 16, n - 1, rng.randrange(n)} & set(range(n)))
        out += [f"flip:{i}:{p}" for p in positions]
        lens = range(n) if thorough else sorted({0, 1, 15, 16, n - 1} & set(range(n)))
        out += [f"trunc:{i}:{L}" for L in lens]
        out.append(f"dup:{i}")
        if i + 1 < len(F):
            out += [f"swap:{i}", f"drop:{i}"]
        else:
            out.append(f"drop-last:{i}")
        out += [f"rekey:{i}", f"forge:{i}"]
    return out


def apply_data_fault(ck, label, s):
    """(expected class | None, faulted frame list) on session s"""
    F = s.frames
    parts = label.split(":")
    kind, i = parts[0], int(parts[1])
    f = F[i]
    if kind == "flip":
        g = nb.Frame(flip(f.real, int(parts[2])), twin_invalid(f.twin), "data")
        return "invalidKey", F[:i] + [g] + F[i + 1 :]
    if kind == "trunc":
        L = int(parts[2])
        return "invalidKey", F[:i] + [nb.Frame(f.real[:L], f.twin[:L], "data")] + F[i + 1 :]
    if kind == "dup":
        return "invalidKey", F[: i + 1] + [f] + F[i + 1 :]
    if kind == "swap":
        return "invalidKey", F[:i] + [F[i + 1], f] + F[i + 2 :]
    if kind == "drop":
        return "invalidKey", F[:i] + F[i + 1 :]
    if kind == "drop-last":
        return None, F[:i]
    other = ChaCha20Poly1305(bytes(ck.rng.randrange(256) for _ in range(32)))
    if kind == "rekey":
        pt = noisedev.inner(*f.msg)
        g = nb.Frame(other.encrypt(noisedev.nonce_bytes(i - 2), pt, None), twin_invalid(f.twin), "data")
        return "invalidKey", F[:i] + [g] + F[i + 1 :]
    if kind == "forge":
        forged = noisedev.inner(99, b"forged")
        g = nb.Frame(other.encrypt(noisedev.nonce_bytes(i - 2), forged, None),
                     twin_invalid(noisedev.sym_enc(i - 2, forged)), "data")
        return "invalidKey", F[:i] + [g] + F[i:]
    raise ValueError(label)


def hs_faults(ck, s):
    F = s.frames
    hello, hs = F[0], F[1]
    rest = F[2:]

    def hsframe(real, marker=None, kind="hs"):
        return nb.Frame(real, real if marker is None else nb.hs_twin(real, marker), kind)

    yield "hs-mac-failure-frame", "invalidKey", [hello, hsframe(b"\x01" + MAC)] + rest
    yield "hs-other-error-frame", "handshake", [hello, hsframe(b"\x01" + b"Bad handshake packet len")] + rest
    yield "hs-error-frame-marker-7", "handshake", [hello, hsframe(b"\x07" + b"whatever")] + rest
    # only the exact MAC-failure text means "wrong key"; every other explanation is a handshake error
    for k_, text in enumerate([b"Handshake error", b"Handshake", b"Handshake MAC failure ", b"handshake mac failure",
                               b"Handshake MAC failur", b"", b"Handshake MAC failure\n", b"MAC failure"]):
        yield f"hs-error-text:{k_}", "handshake", [hello, hsframe(b"\x01" + text)] + rest
    yield "hs-error-frame-bad-utf8", "raw:UnicodeDecodeError", [hello, hsframe(b"\x01\xff\xfe\xfd")] + rest
    yield "hs-empty-frame", "raw:IndexError", [hello, hsframe(b"")] + rest
    n = len(hs.real)
    for p in (1, 5, 32, 33, n - 1):
        yield f"hs-flip:{p}", "invalidKey", [hello, hsframe(flip(hs.real, p), 2)] + rest
    for L in (1, 2, 20, 32):
        yield f"hs-trunc:{L}", "raw:noiseLib", [hello, hsframe(hs.real[:L], 3)] + rest
    for L in (33, 40, n - 1):
        yield f"hs-trunc:{L}", "invalidKey", [hello, hsframe(hs.real[:L], 2)] + rest
    yield "hs-extended", "invalidKey", [hello, hsframe(hs.real + b"\x00", 2)] + rest
    # hello deviations
    yield "hello-empty", "handshake", [nb.Frame(b"", b"", "hello")] + F[1:]
    yield "hello-selector-2", "handshake", [nb.Frame(b"\x02dev\x00", b"\x02dev\x00", "hello")] + F[1:]
    yield "hello-selector-0", "handshake", [nb.Frame(b"\x00", b"\x00", "hello")] + F[1:]
    yield "hello-bad-utf8-name", "raw:UnicodeDecodeError", [nb.Frame(b"\x01\xff\xfe\x00", b"\x01\xff\xfe\x00", "hello")] + F[1:]
    # marker byte
    yield "marker-0-first", "protocol", None  # handled specially (raw stream)


def check_spec(ck, label, expected_cls, msgs, bench, obs, ready_before_pending, replay, must_close=True):
    h, conn, tr = bench
    delivered = conn.delivered
    # 1. byte-exact prefix
    if delivered != msgs[: len(delivered)]:
        ck.violation(f"noise-forged:{label}",
                     f"fault {label}: delivered packets are not a prefix of what the device sent", replay)
        return
    if expected_cls is None:
        return
    first = nb.canon_err(conn.errors[0]) if conn.errors else "none"
    if expected_cls == "prefix-only":
        return
    got_cls = first.split(":")[0] if first.startswith("badName") else first
    if got_cls != expected_cls:
        ck.violation(f"noise-class:{label.split(':')[0]}",
                     f"fault {label}: first fatal error is {first}, the specific class should be {expected_cls}", replay)
    if must_close and not tr.closed:
        ck.violation(f"noise-not-closed:{label.split(':')[0]}", f"fault {label}: transport not closed after {first}", replay)
    # 2. nothing after the failure: the event log of the chunk(s) after the first f: must hold no d:
    seen_f = False
    for o in obs[1:]:
        for e in (o.split("] ")[0][3:].split(" ") if o.split("] ")[0][3:] else []):
            if e.startswith("f:"):
                seen_f = True
            elif seen_f and (e.startswith("d:") or e == "ready"):
                ck.violation(f"noise-after-failure:{label.split(':')[0]}", f"fault {label}: event {e} after the failure", replay)
    # 3. readiness gets the same error if it was pending
    rs = nb.ready_state(h)
    if ready_before_pending and rs != "err:" + first:
        ck.violation(f"noise-ready-error:{label.split(':')[0]}",
                     f"fault {label}: pending readiness wait got {rs}, connection was told {first}", replay)


def run_stream(ck, label, expected_cls, frames, msgs, expected_name, bench, all_ops, all_obs, stats, raw=None, tail=()):
    rng = ck.rng
    real = raw[0] if raw else b"".join(f.wire() for f in frames)
    twin = raw[1] if raw else b"".join(f.wire(True) for f in frames)
    L = len(real)
    mode = stats["n"] % 3
    if mode == 0 or L < 3:
        cuts = ()
    elif mode == 1 and frames:
        pos, cuts = 0, []
        for f in frames[:-1]:
            pos += 3 + len(f.real)
            cuts.append(pos)
        cuts = tuple(c for c in cuts if 0 < c < L)
    else:
        cuts = tuple(sorted(rng.sample(range(1, L), min(3, L - 1))))
    h = bench[0]
    # is the failing frame in the handshake phase (readiness pending when it fails)?
    ops, obs = nb.drive(bench, real, twin, cuts, expected_name, tail)
    all_ops.append(ops)
    all_obs.append(obs)
    stats["n"] += 1
    stats["kinds"][label.split(":")[0]] = stats["kinds"].get(label.split(":")[0], 0) + 1
    return obs, cuts


def key_strings(ck, all_ops, all_obs, stats):
    good = bytes(range(32))
    b64 = base64.b64encode(good).decode()
    cands = [
        (b64, True), (base64.b64encode(bytes(31)).decode(), False), (base64.b64encode(bytes(33)).decode(), False),
        (base64.b64encode(bytes(64)).decode(), False), ("", False), (b64[:-1], False), (b64[:-2], None),
        (b64 + "=", None), ("!" + b64, None), (b64[:10] + "\n" + b64[10:], None), ("not base64 at all", False),
        ("QUJD", False), (b64.replace("A", "-"), None), ("Ä" * 10, False), (base64.b64encode(bytes(0)).decode(), False),
        (base64.urlsafe_b64encode(bytes([0xFB] * 32)).decode(), None),
    ]
    fh.loop()
    for key, strict in cands:
        conn = nb.BenchConnection()
        tr_writes = []
        try:
            try:
                dec = binascii.a2b_base64(key)
            except (ValueError, TypeError):
                dec = None
        except Exception:  # noqa: BLE001
            dec = None
        try:
            h = APINoiseFrameHelper(connection=conn, noise_psk=key, expected_name=None, client_info="v", log_name="v")
            out = "psk ok"
        except core.InvalidEncryptionKeyAPIError:
            out = "psk err:invalidKey"
        except Exception as e:  # noqa: BLE001
            out = "psk err:raw:" + type(e).__name__
        stats["n"] += 1
        stats["kinds"]["psk"] = stats["kinds"].get("psk", 0) + 1
        all_ops.append([f"noise.psk {'none' if dec is None else hx(dec)}"])
        all_obs.append([out])
        if strict is True and out != "psk ok":
            ck.violation(f"psk-good-rejected:{key[:12]}", f"canonical base64 of 32 bytes rejected: {out}", {"key": key})
        if strict is False and out != "psk err:invalidKey":
            ck.violation(f"psk-bad-accepted:{key[:12]}",
                         f"key {key!r} is not base64 for exactly 32 bytes but constructing the helper gave {out}", {"key": key})
        if strict is None and out not in ("psk ok", "psk err:invalidKey"):
            ck.violation(f"psk-raw:{key[:12]}", f"key {key!r}: unclassified outcome {out}", {"key": key})


def client_keys(ck, stats):
    """the same rule through the public entry point: an APIClient configured with a key that is not base64 for exactly 32 bytes
    fails its connect with the invalid-key error and writes nothing - in particular it never falls back to plaintext"""
    import simnet
    from aioesphomeapi.client import APIClient
    good = base64.b64encode(bytes(range(32))).decode()
    bad = [" ", "\n", "\t \n", "   ", base64.b64encode(bytes(31)).decode(), base64.b64encode(bytes(33)).decode(), "QUJD", "not base64 at all",
           good[:-1], base64.b64encode(bytes(0)).decode() + " ", "Ä" * 10]
    for key in bad:
        net = simnet.Net()
        loop = net.loop
        net.auto_resolve = net.auto_sock = True
        try:
            client = APIClient("10.0.0.1", 6053, None, noise_psk=key)
            o = simnet.spawn(loop, client.connect(login=False), "connect")
            loop.run_idle()
            loop.advance(1.0)
            exc = o.task.exception() if o.task.done() and not o.task.cancelled() else None
            outcome = type(exc).__name__ if exc is not None else ("ok" if o.task.done() else "pending")
        except core.InvalidEncryptionKeyAPIError:
            outcome = "InvalidEncryptionKeyAPIError"      # rejected even earlier: fine
        written = [bytes(d) for tr in net.transports for _, d in tr.writes]
        stats["n"] += 1
        stats["kinds"]["client-psk"] = stats["kinds"].get("client-psk", 0) + 1
        if outcome != "InvalidEncryptionKeyAPIError" or written:
            ck.violation(f"client-psk:{key!r}", f"APIClient(noise_psk={key!r}).connect(): {outcome}, bytes written {[w[:12].hex() for w in written]} - a key "
                         "that is not base64 for exactly 32 bytes is rejected as an invalid-encryption-key error before anything is sent",
                         {"key": key, "outcome": outcome, "written": [w.hex()[:60] for w in written]})
        net.close()


def client_names(ck, stats):
    """"a mismatching device name" on an encrypted session whose ServerHello announces none (firmware that predates the name in
    the hello): the name in the encrypted HelloResponse is what is compared - a wrong one ends the session with the bad-name
    error carrying it"""
    import c06
    for server_name, name, expected, want in [(None, "other", c06.EXPECTED, "bad"), (None, c06.EXPECTED, c06.EXPECTED, "ok"),
                                              (None, c06.EXPECTED + "x", c06.EXPECTED, "bad"), (None, "other", None, "ok"),
                                              (c06.EXPECTED, "other", c06.EXPECTED, "bad")]:
        res, info = c06.run_one_noise(1, name, server_name, expected, False, None, False)
        stats["n"] += 1
        stats["kinds"]["client-name"] = stats["kinds"].get("client-name", 0) + 1
        good = (res == "ok") if want == "ok" else (res == "err:badName" and info["received_name"] == name and info["state"] == "closed")
        if not good:
            ck.violation(f"client-noise-name:{server_name}:{name}:{expected}", f"encrypted session, ServerHello name {server_name!r}, HelloResponse name "
                         f"{name!r}, expected {expected!r}: connect() ended as {res} (received_name={info['received_name']!r}, state {info['state']})",
                         {"server_hello_name": server_name, "hello_response_name": name, "expected": expected, "observed": res})


def run(ck: Check):
    thorough = ck.tier == "thorough"
    all_ops, all_obs = [], []
    stats = {"n": 0, "kinds": {}}
    n_base = 12 if thorough else 8
    for bi in range(n_base):
        probe, _, dev, msgs = base(ck, 4 if bi % 2 == 0 else 2)
        # data-phase faults (readiness already ok when they strike); a fresh session (fresh keys, fresh
        # single-use client helper) per fault
        for label in data_fault_labels(ck, probe, thorough):
            s2, bench, dev2 = nb.build_session(ck.rng, name=b"dev", expected=None, msgs=msgs)
            cls, frames = apply_data_fault(ck, label, s2)
            obs, cuts = run_stream(ck, label, cls, frames, msgs, None, bench, all_ops, all_obs, stats)
            replay = {"fault": label, "msgs": [[t, p.hex()] for t, p in msgs], "cuts": list(cuts), "observed": obs[1:]}
            check_spec(ck, label, cls, msgs, bench, obs, False, replay)
    # handshake-phase deviations
    for rep in range(3 if thorough else 1):
        for exp_name in (None, "dev"):
            probe, _, dev, msgs = base(ck, 2, expected=exp_name)
            for label, cls, _ in hs_faults(ck, probe):
                s2, bench, dev2 = nb.build_session(ck.rng, name=b"dev", expected=exp_name, msgs=msgs)
                if label == "marker-0-first":
                    # a device speaking plaintext: 00 <len> <type> payload...
                    raw = b"\x00\x05\x02hello" + b"\x00\x00\x08"
                    obs, cuts = run_stream(ck, label, cls, [], msgs, exp_name, bench, all_ops, all_obs, stats, raw=(raw, raw))
                else:
                    frames = dict((l, fr) for l, _, fr in hs_faults(ck, s2))[label]
                    obs, cuts = run_stream(ck, label, cls, frames, msgs, exp_name, bench, all_ops, all_obs, stats)
                replay = {"fault": label, "expected_name": exp_name, "cuts": list(cuts), "observed": obs[1:]}
                check_spec(ck, label, cls, msgs, bench, obs, True, replay)
    # name mismatch / wrong key / marker inside the data phase / transport events
    for name, exp_name, cls in ((b"other", "dev", "badName"), (b"", "dev", "badName"), (b"dev", "Dev", "badName")):
        s2, bench, _ = nb.build_session(ck.rng, name=name, expected=exp_name, msgs=[(1, b"x")])
        obs, cuts = run_stream(ck, f"name:{name}", cls, s2.frames, [(1, b"x")], exp_name, bench, all_ops, all_obs, stats)
        check_spec(ck, f"name:{name.decode()}", cls, [(1, b"x")], bench, obs, True, {"name": name.hex(), "expected": exp_name, "observed": obs[1:]})
        if not (bench[1].errors and getattr(bench[1].errors[0], "received_name", None) == name.decode()):
            ck.violation("noise-badname-carries-name", f"bad-name error does not carry the received name {name!r}", {"observed": obs[1:]})
    for _ in range(4 if thorough else 2):
        wrong = noisedev.new_psk(ck.rng)
        s2, bench, _ = nb.build_session(ck.rng, name=b"dev", expected=None, msgs=[(1, b"x")], client_psk=wrong)
        obs, cuts = run_stream(ck, "wrong-key", "invalidKey", s2.frames, [(1, b"x")], None, bench, all_ops, all_obs, stats)
        check_spec(ck, "wrong-key", "invalidKey", [(1, b"x")], bench, obs, True, {"observed": obs[1:]})
    for k in range(3):
        s2, bench, dev2 = nb.build_session(ck.rng, name=b"dev", expected=None, msgs=[(1, b"a"), (2, b"b"), (3, b"c")])
        F = s2.frames
        i = 2 + k
        real = b"".join(f.wire() for f in F[:i]) + flip(F[i].wire(), 0) + b"".join(f.wire() for f in F[i + 1 :])
        twin = b"".join(f.wire(True) for f in F[:i]) + flip(F[i].wire(True), 0) + b"".join(f.wire(True) for f in F[i + 1 :])
        obs, cuts = run_stream(ck, f"marker-flip:{i}", "protocol", [], None, None, bench, all_ops, all_obs, stats, raw=(real, twin))
        check_spec(ck, f"marker-flip:{i}", "protocol", [(1, b"a"), (2, b"b"), (3, b"c")], bench, obs, False, {"observed": obs[1:]})
        # header length tamper: prefix + class in {invalidKey, protocol} if anything is reported
        for hb in (1, 2):
            s3, bench3, _ = nb.build_session(ck.rng, name=b"dev", expected=None, msgs=[(1, b"a"), (2, b"b"), (3, b"c")])
            F3 = s3.frames
            real = b"".join(f.wire() for f in F3[:i]) + flip(F3[i].wire(), hb) + b"".join(f.wire() for f in F3[i + 1 :])
            twin = b"".join(f.wire(True) for f in F3[:i]) + flip(F3[i].wire(True), hb) + b"".join(f.wire(True) for f in F3[i + 1 :])
            obs, cuts = run_stream(ck, f"length-flip:{i}:{hb}", None, [], None, None, bench3, all_ops, all_obs, stats, raw=(real, twin))
            check_spec(ck, f"length-flip:{i}:{hb}", "prefix-only", [(1, b"a"), (2, b"b"), (3, b"c")], bench3, obs, False, {"observed": obs[1:]})
            errs = bench3[1].errors
            if errs and nb.canon_err(errs[0]) not in ("invalidKey", "protocol"):
                ck.violation("noise-class:length-flip", f"length tamper gave {nb.canon_err(errs[0])}", {"observed": obs[1:]})
    # transport events at each phase
    for upto, ev, cls in ((0, "lost:reset", "handshake"), (0, "eof", "socketClosed"), (1, "lost:reset", "other"),
                          (1, "lost:none", "socketClosed"), (2, "eof", "socketClosed"), (3, "lost:other", "other"),
                          (0, "lost:other", "other"), (0, "lost:none", "socketClosed")):
        s2, bench, _ = nb.build_session(ck.rng, name=b"dev", expected=None, msgs=[(1, b"a"), (2, b"b")])
        obs, cuts = run_stream(ck, f"{ev}@{upto}", cls, s2.frames[:upto], [(1, b"a"), (2, b"b")], None, bench, all_ops, all_obs,
                               stats, tail=(ev,))
        check_spec(ck, f"{ev}@{upto}", cls, [(1, b"a"), (2, b"b")], bench, obs, upto < 2, {"observed": obs[1:]}, must_close=False)
    # the other framing on a plaintext client
    h, conn, tr = fh.make_plain()
    fh.deliver(h, conn, tr, b"\x01\x00\x05\x01dev\x00")
    stats["n"] += 1
    if not (conn.errors and fh.err_class(conn.errors[0]) == "requiresEncryption" and tr.closed and not conn.delivered):
        ck.violation("plain-vs-noise-device", "plaintext client reading a noise hello did not fail with requires-encryption",
                     {"errors": [fh.err_class(e) for e in conn.errors]})
    all_ops.append(["plain.reset", "plain.feed 010005016465760" + "0"])
    all_obs.append(["ok", "d [] closed=requiresEncryption"])
    key_strings(ck, all_ops, all_obs, stats)
    client_keys(ck, stats)
    client_names(ck, stats)

    dis = 0
    if ck.driver_ok:
        nbk = 16
        batches = [sum(all_ops[i::nbk], []) for i in range(nbk)]
        outs = run_driver_parallel(batches)
        for b in range(nbk):
            exp_lines = sum(all_obs[b::nbk], [])
            if outs[b] is None:
                ck.disagreement("driver failed", {"batch": b})
                continue
            for op, m, o in zip(batches[b], outs[b], exp_lines):
                m2 = " ".join(w for w in m.split(" ") if not w.startswith(("phase=", "buf=")))
                if m2 != o:
                    dis += 1
                    ck.disagreement("noise fault: model != implementation", {"op": op[:200], "model": m2[:300], "impl": o[:300]})
                    break
    else:
        ck.disagreement("Lean driver unavailable (build failed): model not executed", {})
    ck.coverage.update({
        "evaluations": stats["n"],
        "distinct_nontrivial": stats["n"] - stats["kinds"].get("drop-last", 0),
        "rule": "one evaluation = one faulted device stream (fault kind x frame x position) on a fresh key, or one key "
                "string; every generated case is distinct by construction (fault label x base session); non-trivial = "
                "the fault changes the stream",
        "fault_kinds": dict(sorted(stats["kinds"].items())),
        "traces_validated_against_impl": len(all_ops) if ck.driver_ok else 0,
        "disagreements_checked": dis,
        "samples": [{"ops": [x[:100] for x in o[:3]], "obs": b[:3]} for o, b in list(zip(all_ops, all_obs))[:: max(1, len(all_ops) // 4)][:4]],
    })
    ck.assumptions += [
        "AEAD integrity is a hypothesis of c04_prefix (Genuine), not an axiom; ChaCha20-Poly1305 provides it",
        "base64 leniency is binascii's: keys with skipped non-alphabet characters are compared model-vs-code only",
    ]


