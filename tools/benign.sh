#!/bin/bash
# run EVERY quick check against each behaviour-preserving change under <dir>/*/patch.diff (no alarm is the expected
# outcome): parallel, each worker from a private copy of the verification tree.  usage: [CHECKS="C05 C09"] tools/benign.sh <dir> [workers]
SRC=${1:-/verif/benign}; N=${2:-8}
ls -d $SRC/*/ > /tmp/benlist.$$
for i in $(seq 0 $((N-1))); do
  (
    V=/tmp/vb-$$-$i; rm -rf $V; rsync -a --exclude .git /verif/ $V/
    awk -v n=$N -v i=$i 'NR % n == i' /tmp/benlist.$$ | while read d; do
      n=$(basename $d)
      out=$(VROOT=$V NOSUITE=1 timeout 3000 /verif/tools/try_seed.sh $d "${CHECKS:-C01 C02 C03 C04 C05 C06 C07 C08 C09 C10 C11 C12 C13 C14 C15 C16 C17 C18 C19 C20}" 2>&1 | grep -v "KNOWN-FINDING")
      bad=$(echo "$out" | grep -c "^VIOLATION\|internal error\|patch does not apply")
      echo "$n alarms=$bad"
      echo "$out" | grep "^VIOLATION\|internal error\|patch does not apply\|violations=[1-9]" | sed "s/^/   $n: /" | head -20
      mkdir -p /tmp/benign-replays/$n; cp $V/replays/*.json /tmp/benign-replays/$n/ 2>/dev/null; rm -f $V/replays/*.json
    done
    rm -rf $V
  ) &
done
wait
rm -f /tmp/benlist.$$
