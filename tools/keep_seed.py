"""keep a confirmed seeded change: tools/keep_seed.py <src dir> <name> <property> "<caught by>" "<what I ran>" """
import json, shutil, sys, os
src, name, pid, caught, ran = sys.argv[1:6]
dst = f"/verif/seeded/{name}"
os.makedirs(dst, exist_ok=True)
for f in os.listdir(src):
    if f.endswith((".diff", ".py", ".json")):
        shutil.copy(os.path.join(src, f), dst)
mp = os.path.join(dst, "meta.json")
m = json.load(open(mp)) if os.path.exists(mp) else {}
m.update({"property": pid, "confirmed_by_me": ran, "caught_by": caught})
json.dump(m, open(mp, "w"), indent=1)
print("kept", dst)
