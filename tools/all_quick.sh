#!/bin/bash
# runs every quick check on the current tree, one after the other (they share the Lean build), and prints one line each
cd ${VROOT:-/verif}
rm -f replays/*.json
for i in $(seq -w 1 20); do
  timeout 1500 ./check C$i --tier ${1:-quick} 2>&1 | grep -v "^WARNING conda" | grep "VIOLATION\|^\[C\|internal error\|KNOWN-FINDING" | cut -c1-160
done
