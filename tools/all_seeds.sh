#!/bin/bash
# re-confirm every kept seeded change against the current checks, in parallel: each worker runs from a private copy of the
# verification tree (the translator-based checks regenerate lean/Esp/Gen from the changed tree, so workers must not share
# it).  One line per seed: CAUGHT (concrete replay) / CAUGHT-NO-INPUT (correspondence or obligation only) / MISSED.
# usage: tools/all_seeds.sh [workers] [dir-with-seeds]
N=${1:-8}; SRC=${2:-/verif/seeded}
ls -d $SRC/*/ > /tmp/seedlist.$$
for i in $(seq 0 $((N-1))); do
  (
    V=/tmp/vp-$$-$i; rm -rf $V; rsync -a --exclude .git /verif/ $V/
    awk -v n=$N -v i=$i 'NR % n == i' /tmp/seedlist.$$ | while read d; do
      n=$(basename $d); p=${n%%-*}
      out=$(VROOT=$V NOSUITE=${NOSUITE:-1} timeout 1200 /verif/tools/try_seed.sh $d $p 2>&1 | grep -v "KNOWN-FINDING")
      if echo "$out" | grep -q "^VIOLATION.*no-failing-input-found" && ! echo "$out" | grep "^VIOLATION" | grep -qv "no-failing-input-found"; then v=CAUGHT-NO-INPUT
      elif echo "$out" | grep -q "^VIOLATION"; then v=CAUGHT
      elif echo "$out" | grep -q "internal error"; then v=ERROR
      else v=MISSED; fi
      demo=$(echo "$out" | grep -c "demo with change:   exit 1")
      echo "$n $v demo_fails=$demo"
    done
    rm -rf $V
  ) &
done
wait
rm -f /tmp/seedlist.$$
