#!/bin/bash
# re-confirm every kept seeded change against the current checks: prints one line per seed (CAUGHT with a concrete replay /
# CAUGHT-NO-INPUT (correspondence or obligation only) / MISSED) and restores Gen by re-running the translator-based checks last
cd /verif
for d in seeded/*/; do
  n=$(basename $d); p=${n%%-*}
  out=$(timeout 900 tools/try_seed.sh $d $p 2>&1 | grep -v "KNOWN-FINDING")
  if echo "$out" | grep -q "^VIOLATION.*no-failing-input-found" && ! echo "$out" | grep "^VIOLATION" | grep -qv "no-failing-input-found"; then v=CAUGHT-NO-INPUT
  elif echo "$out" | grep -q "^VIOLATION"; then v=CAUGHT
  else v=MISSED; fi
  demo=$(echo "$out" | grep -c "demo with change:   exit 1")
  echo "$n $v demo_fails=$demo"
done
for p in C12 C13 C14 C15 C18 C09 C10; do ./check $p >/dev/null 2>&1; done
