import json, jsonschema, glob, sys
m=json.load(open('/verif/MANIFEST.json')); s=json.load(open('/root/.vp/MANIFEST.schema.json'))
jsonschema.validate(m,s); print("manifest valid")
es=json.load(open('/root/.vp/EVIDENCE.schema.json'))
for f in sorted(glob.glob('/verif/evidence/*.json')):
    jsonschema.validate(json.load(open(f)), es)
print("evidence valid:", len(glob.glob('/verif/evidence/*.json')))
