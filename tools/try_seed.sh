#!/bin/bash
# usage: tools/try_seed.sh <dir with patch.diff + demo> <property> [tier]
# confirms a seeded change (demo passes clean / fails changed, suite passes changed) in a scratch worktree and runs
# the check against that worktree (VERIF_REPO + PYTHONPATH), so /repo itself stays untouched.
# VROOT (default /verif) = the copy of the verification tree to run the check from (parallel runs use private copies).
D=$(realpath "$1"); P=$2; TIER=${3:-quick}; VROOT=${VROOT:-/verif}
WT=/tmp/wt/confirm-$$
git -C /repo worktree add --detach $WT HEAD >/dev/null 2>&1 || exit 3
demo=$(ls $D/demo_test.py $D/demo.py 2>/dev/null | head -1)
rundemo() { if [[ -z "$demo" ]]; then echo "-"; elif [[ $demo == *_test.py ]]; then (cd $WT && PYTHONPATH=$WT /venv/bin/python -m pytest -q -p no:cacheprovider -x $demo >/dev/null 2>&1); echo $?; else (cd $WT && PYTHONPATH=$WT /venv/bin/python $demo >/dev/null 2>&1); echo $?; fi; }
echo "== $D ($P)"
echo "demo on clean tree: exit $(rundemo)"
git -C $WT apply $D/patch.diff || { echo "patch does not apply"; git -C /repo worktree remove --force $WT; exit 3; }
echo "demo with change:   exit $(rundemo)"
if [[ -z "$NOSUITE" ]]; then (cd $WT && PYTHONPATH=$WT /venv/bin/python -m pytest -q -p no:cacheprovider --timeout=900 --continue-on-collection-errors 2>&1 | tail -1); fi
for p in $P; do
  (cd $VROOT && VERIF_REPO=$WT PYTHONPATH=$WT ./check $p --tier $TIER 2>&1 | grep "^VIOLATION\|^\[C[0-9][0-9]\]\|^KNOWN-FINDING\|internal error" | tail -6)
done
git -C /repo worktree remove --force $WT
