#!/bin/bash
# usage: tools/try_seed.sh <dir with patch.diff + demo> <property> [tier]
# confirms a seeded change (demo passes clean / fails changed, suite passes changed) in a scratch worktree and runs
# the check against that worktree (VERIF_REPO + PYTHONPATH), so /repo itself stays untouched.
D=$(realpath "$1"); P=$2; TIER=${3:-quick}
WT=/tmp/wt/confirm-$$
git -C /repo worktree add --detach $WT HEAD >/dev/null 2>&1 || exit 3
demo=$(ls $D/demo_test.py $D/demo.py 2>/dev/null | head -1)
rundemo() { if [[ $demo == *_test.py ]]; then (cd $WT && PYTHONPATH=$WT /venv/bin/python -m pytest -q -p no:cacheprovider -x $demo >/dev/null 2>&1); else (cd $WT && PYTHONPATH=$WT /venv/bin/python $demo >/dev/null 2>&1); fi; echo $?; }
echo "== $D ($P)"
echo "demo on clean tree: exit $(rundemo)"
git -C $WT apply $D/patch.diff || { echo "patch does not apply"; git -C /repo worktree remove --force $WT; exit 3; }
echo "demo with change:   exit $(rundemo)"
(cd $WT && PYTHONPATH=$WT /venv/bin/python -m pytest -q -p no:cacheprovider --timeout=900 --continue-on-collection-errors 2>&1 | tail -1)
(cd /verif && VERIF_REPO=$WT PYTHONPATH=$WT ./check $P --tier $TIER 2>&1 | grep -v conda | tail -4)
git -C /repo worktree remove --force $WT
