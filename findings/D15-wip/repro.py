"""D15 (observed 2026-09-30, not yet reported by a registered check): APIClient.finish_connection() called a second time
while the first is still in progress (or while start_connection is in progress / a session is up) is refused by the
connection's guard with RuntimeError - and APIClient._execute_connection_coro then DETACHES the connection, which goes on
unsupervised: the first finish_connection() ends with a raw AttributeError (self._connection is None), the session it
established is alive but unknown to the client, and a new start_connection() is accepted on top of it (C19, C09).
Run: PYTHONPATH=/verif/harness /venv/bin/python /verif/findings/D15-wip/repro.py   (exit 1 = defect present)"""
import sys
import simnet
from aioesphomeapi import APIClient

net = simnet.Net(); loop = net.loop; net.auto_resolve = net.auto_sock = True
client = APIClient("10.0.0.1", 6053, None)
async def on_stop(e): pass
a = simnet.spawn(loop, client.start_connection(on_stop), "s"); loop.run_idle()
f1 = simnet.spawn(loop, client.finish_connection(login=False), "f1"); loop.run_idle()
conn = client._connection
f2 = simnet.spawn(loop, client.finish_connection(login=False), "f2"); loop.run_idle()
net.send(simnet.hello_response()); loop.run_idle()
print("first finish:", f1.cls(), "| duplicate finish:", f2.cls(), "| connection connected:", conn.is_connected,
      "| attached to the client:", client._connection is conn)
bad = client._connection is not conn or f1.cls() != "ok"
net.close()
sys.exit(1 if bad else 0)
